// Property recipes: how one scenario is run and which oracles are evaluated.  Every run evaluates every oracle that
// applies to its configuration; tools/check.py attributes violation classes to properties (DESIGN.md section 5).
#include "recipes.hpp"

#include <algorithm>
#include <cmath>
#include <stdexcept>

namespace tbfsim {

std::map<std::string, WorldFactory>& worldRegistry() {
    static std::map<std::string, WorldFactory> reg;
    return reg;
}

int schedulesPer(const std::string& prop, const std::string& tier) {
    const bool th = (tier == "thorough");
    if (prop == "C03") return th ? 24 : 8;
    if (prop == "C12") return 118;
    if (prop == "C13") return th ? 3 : 2;
    return th ? 8 : 4;
}

namespace {

struct RunState {
    Ctx& ctx;
    const Scenario& sc;
    std::vector<Violation> out;        // violations with their origin
    std::vector<std::string> where;
    std::vector<std::string> fwErrors;
    long regions = 0, racePairs = 0, tasksTotal = 0;
    Stats agg;
    std::set<uint64_t> taskKindsInverted;
    std::map<long, std::set<int>> kernelIndexWorkers;
    int maxThreadsSeen = 0;
    std::set<std::string> kindPairsInverted, kindPairsNested;
    bool countersEachCall = false;
    bool rebuildRecipe = false;        // move/rebuild/execute histories: the live-allocation balance is not evaluated (the harness keeps per-tree
                                       // bookkeeping across rebuilds whose own allocations depend on what the process ran before)
    explicit RunState(Ctx& c, const Scenario& s) : ctx(c), sc(s) {}

    void drain(const std::string& origin) {
        for (auto& v : ctx.viol) { out.push_back(v); where.push_back(origin); }
        ctx.viol.clear();
    }
};

void prepareInputs(Ctx& ctx, const Scenario& sc) {
    for (int t = 0; t < 2; ++t) ctx.inputs[t].clear();
    if (sc.isNumeric()) {   // physical values in (0, 1]
        const double scale = 1.0 / double(1ULL << 40);
        for (size_t i = 0; i < sc.src.size(); ++i) ctx.inputs[0].push_back({{sc.src[i][0], sc.src[i][1], sc.src[i][2], double(wkWeight(sc.runKey, 0, long(i))) * scale}});
        for (size_t i = 0; i < sc.tgt.size(); ++i) ctx.inputs[1].push_back({{sc.tgt[i][0], sc.tgt[i][1], sc.tgt[i][2], double(wkWeight(sc.runKey, 1, long(i))) * scale}});
        return;
    }
    const unsigned long wmask = sc.isFloat() ? ((1UL << 22) - 1) : ~0UL;   // weights must be exact in the tree's real type
    if (sc.kernel == "weight_s35" || sc.kernel == "weight_f35") {   // weight derived from the original index inside the kernel: same function for both trees
        for (size_t i = 0; i < sc.src.size(); ++i) ctx.inputs[0].push_back({{sc.src[i][0], sc.src[i][1], sc.src[i][2], double(wkWeight(sc.runKey, 0, long(i)))}});
        for (size_t i = 0; i < sc.tgt.size(); ++i) ctx.inputs[1].push_back({{sc.tgt[i][0], sc.tgt[i][1], sc.tgt[i][2], double(wkWeight(sc.runKey, 0, long(i)))}});
        return;
    }
    for (size_t i = 0; i < sc.src.size(); ++i)
        ctx.inputs[0].push_back({{sc.src[i][0], sc.src[i][1], sc.src[i][2], double((wkWeight(sc.runKey, 0, long(i)) & wmask) | 1UL)}});
    for (size_t i = 0; i < sc.tgt.size(); ++i)
        ctx.inputs[1].push_back({{sc.tgt[i][0], sc.tgt[i][1], sc.tgt[i][2], double((wkWeight(sc.runKey, 1, long(i)) & wmask) | 1UL)}});
}

std::unique_ptr<IWorld> makeWorld(const Scenario& sc) {
    auto it = worldRegistry().find(worldKey(sc));
    if (it == worldRegistry().end()) throw std::runtime_error("no world registered for " + worldKey(sc));
    return it->second(sc);
}

void addStats(Stats& a, const Stats& b) {
    for (int k = 0; k < 4; ++k) { a.points[k] += b.points[k]; a.startedAt[k] += b.startedAt[k]; }
    a.tasks += b.tasks; a.maxDepth = std::max(a.maxDepth, b.maxDepth); a.inversions += b.inversions; a.overlaps += b.overlaps;
    a.deferredToWait += b.deferredToWait; a.ranAfterScribble += b.ranAfterScribble; a.commutativeReordered += b.commutativeReordered;
    a.prioInversions += b.prioInversions; a.scribbles += b.scribbles; a.teamSmaller += b.teamSmaller; a.stuck += b.stuck;
}

void checkKernelObjects(RunState& rs, IWorld& w, const std::string& origin);

// one execute() (or top-tree execute) with all per-call oracles
void doExecute(RunState& rs, IWorld& w, const HistOp& op, bool simulate, const std::string& origin) {
    Ctx& ctx = rs.ctx;
    ctx.view = &w.view();
    Snapshot before;
    before.take(w.view());
    const size_t firstCall = ctx.calls.size();
    // dead-stack scribble (plain flavour, when the run's policy enables it): whatever a library routine reads from its
    // own frame without having written it is then deterministic garbage instead of a plausible leftover value
    ctx.sim.scribbleStack();
    if (op.op == "top") {
        w.topExecute(op.flags);
        // the level arguments of the top-tree calls: the extended tree has nbLevelsAbove0 + 5 levels (documented in the
        // algorithm's GenerateAboveTreeConfiguration); M2M goes from H-2 down to 3, M2L over 3..H-2, L2L from 3 up to H-2
        if (rs.sc.topLevels >= -1) {   // -1: "done already by the real periodic FMM" -- no kernel call at all
            const long H = rs.sc.topLevels + 5;
            std::vector<std::pair<int, long>> expect;
            if (op.flags & F_M2M) for (long l = H - 2; l >= 3; --l) expect.emplace_back(OP_M2M, l);
            if (op.flags & F_M2L) for (long l = 3; l <= H - 2; ++l) expect.emplace_back(OP_M2L, l);
            if ((op.flags & F_L2L) && rs.sc.topLevels >= 0) { for (long l = 3; l <= H - 3; ++l) expect.emplace_back(OP_L2L, l); expect.emplace_back(OP_L2L, H - 2); }
            std::vector<std::pair<int, long>> got;
            for (size_t i = firstCall; i < ctx.calls.size(); ++i) got.emplace_back(ctx.calls[i].op, ctx.calls[i].level);
            if (got != expect) {
                std::string g, e;
                for (auto& x : got) g += std::string(opName(x.first)) + "@" + std::to_string(x.second) + " ";
                for (auto& x : expect) e += std::string(opName(x.first)) + "@" + std::to_string(x.second) + " ";
                ctx.addViolation("argcheck", "top.level-sequence", "periodic top-tree execute(flags=" + std::to_string(op.flags) + ") called [" + g + "] but the extended tree implies [" + e + "]");
            }
        }
        // the top tree reads level-1 multipoles and adds to level-1 locals (L2L into the real tree); nothing else may change
        for (size_t i = 0; i < w.view().bufs.size(); ++i) {
            const BufRec& b = w.view().bufs[i];
            if (b.kind == BUF_LOCAL && b.level == 1) continue;
            if (before.data[i].size() == b.bytes && std::memcmp(b.ptr, before.data[i].data(), b.bytes) != 0)
                ctx.addViolation(b.kind == BUF_CELL_SYMB || b.kind == BUF_PART_SYMB ? "symbolic-changed" : "writeset", std::string("top.") + bufName(b.kind), "periodic top-tree execute changed " + b.name());
        }
        rs.drain(origin);
        return;
    }
    ctx.sim.observed.clear();
    ctx.sim.errors.clear();
    ctx.sim.stats = Stats();
    if (simulate) ctx.sim.maxThreads = op.threads > 0 ? op.threads : rs.sc.threadsExec;
    // the executor creates additional per-thread kernel copies inside execute() when the thread count grew: those
    // allocations are legitimate, so the allocation-balance oracle only applies to calls without such growth, and
    // only with the probe kernels (library kernels may cache)
    if (rs.maxThreadsSeen == 0) rs.maxThreadsSeen = rs.sc.threadsCtor;
    const bool kernelGrowth = simulate && ctx.sim.maxThreads > rs.maxThreadsSeen;
    if (simulate && ctx.sim.maxThreads > rs.maxThreadsSeen) rs.maxThreadsSeen = ctx.sim.maxThreads;
    const bool balanceApplies = !kernelGrowth && !rs.rebuildRecipe && (rs.sc.kernel.rfind("weight", 0) == 0 || rs.sc.kernel == "test");
    const long live0 = liveAllocations();
    setStage(simulate ? "task-execute" : "seq-execute");
    w.execute(op.flags);
    setStage("oracles");
    const long live1 = liveAllocations();
    checkWriteSet(ctx, w.view(), before, op.flags);
    checkCallLog(ctx, firstCall, op.flags);
    if (simulate) {
        rs.regions += 1;
        rs.racePairs += checkRaces(ctx);
        rs.tasksTotal += long(ctx.sim.tasks.size());
        {
            auto kindOf = [&](int id) {
                const Task& t = *ctx.sim.tasks[size_t(id)];
                std::string k = t.firstKind < 0 ? std::string("no-callback") : std::string(opName(t.firstKind));
                if (t.firstKind == OP_M2M || t.firstKind == OP_M2L || t.firstKind == OP_L2L) k += "@" + std::to_string(t.firstLevel);
                return k;
            };
            for (auto& pr : ctx.sim.invPairs) rs.kindPairsInverted.insert(kindOf(pr.first) + "<" + kindOf(pr.second));
            for (auto& pr : ctx.sim.nestPairs) rs.kindPairsNested.insert(kindOf(pr.first) + " in " + kindOf(pr.second));
        }
        addStats(rs.agg, ctx.sim.stats);
        for (auto& e : ctx.sim.errors) rs.fwErrors.push_back(e);
        for (const auto& tp : ctx.sim.tasks) if (tp->state != 2) { ctx.addViolation("quiescence", "task-not-run", "execute() returned while " + ctx.sim.taskLabel(tp->id) + " had not run"); break; }
        checkKernelObjects(rs, w, origin);
        if (balanceApplies && live0 >= 0 && live1 != live0)
            ctx.addViolation("quiescence", "live-allocations", "execute() changed the number of live heap blocks allocated by the library from " + std::to_string(live0) + " to " + std::to_string(live1));
    }
    rs.drain(origin);
}

void checkCounters(RunState& rs, IWorld& w, size_t nbOpsDone);

void runHistory(RunState& rs, IWorld& w, const std::vector<HistOp>& history, bool simulate, const std::string& origin) {
    size_t done = 0;
    for (const HistOp& op : history) {
        if (op.op == "execute" || op.op == "top") doExecute(rs, w, op, simulate, origin);
        done += 1;
        // counters are observable between the stages of a staged run, where the per-operator counts are not yet symmetric
        if (rs.countersEachCall && origin == "run" && done < history.size()) checkCounters(rs, w, done);
    }
}

// Oracle C (documented guarantee "each kernel is called by only one thread"): evaluated after every simulated execute.
// Kernel objects are identified by their position in the executor's kernel list (the vector may be reallocated when the
// thread count grows between two execute() calls, so addresses are only meaningful within one call).
void checkKernelObjects(RunState& rs, IWorld& w, const std::string& origin) {
    Ctx& ctx = rs.ctx;
    std::vector<const void*> objs;
    w.kernelObjects(objs);
    for (auto& kv : ctx.kernelWorkers) {
        long idx = -1;
        for (size_t i = 0; i < objs.size(); ++i) if (objs[i] == kv.first) idx = long(i);
        if (idx < 0) { ctx.addViolation("kernel-sharing", "foreign-object", "a kernel callback ran on an object that is not one of the executor's " + std::to_string(objs.size()) + " kernel objects"); continue; }
        auto& ws = rs.kernelIndexWorkers[idx];
        ws.insert(kv.second.begin(), kv.second.end());
        if (ws.size() > 1) ctx.addViolation("kernel-sharing", "two-workers", "kernel object #" + std::to_string(idx) + " was used by " + std::to_string(ws.size()) + " different workers within one run");
    }
    ctx.kernelWorkers.clear();
    rs.drain(origin);
}

Json violationsJson(const RunState& rs) {
    Json a = Json::array();
    for (size_t i = 0; i < rs.out.size(); ++i) {
        Json v = Json::object();
        v.set("cls", rs.out[i].cls).set("site", rs.out[i].site).set("detail", rs.out[i].detail).set("task", rs.out[i].task).set("where", rs.where[i]);
        a.push(v);
    }
    return a;
}

Json statsJson(const RunState& rs, const Ctx& ctx) {
    Json s = Json::object();
    const Stats& a = rs.agg;
    s.set("regions", rs.regions).set("tasks", rs.tasksTotal).set("race_pairs", rs.racePairs).set("callbacks", ctx.callbacks).set("argchecks", ctx.argchecks);
    s.set("points_create", a.points[0]).set("points_yield", a.points[1]).set("points_wait", a.points[2]).set("points_deep", a.points[3]);
    s.set("started_create", a.startedAt[0]).set("started_yield", a.startedAt[1]).set("started_wait", a.startedAt[2]).set("started_deep", a.startedAt[3]);
    s.set("inversions", a.inversions).set("overlaps", a.overlaps).set("max_depth", a.maxDepth).set("commutative_reordered", a.commutativeReordered);
    s.set("prio_inversions", a.prioInversions).set("scribbles", a.scribbles).set("ran_after_scribble", a.ranAfterScribble).set("team_smaller", a.teamSmaller);
    s.set("threads_changed", rs.sc.threadsCtor != rs.sc.threadsExec ? 1 : 0);
    return s;
}

void setupSim(Ctx& ctx, const Scenario& sc) {
    Sim& sim = ctx.sim;
    sim.resetLogs();
    sim.policy = sc.policy;
    sim.rng.reseed(sc.schedSeed);
    sim.replayMode = sc.haveDecisions;
    sim.replay = sc.decisions;
    sim.replayPos = 0;
    sim.allowScribble = flavourIsPlain();
    sim.maxThreads = sc.threadsCtor;
}


// C18: merged counters (documented Reduce, seeded order) against the counts the tree implies for the executes done so far
void checkCounters(RunState& rs, IWorld& w, size_t nbOpsDone) {
    Ctx& ctx = rs.ctx;
    const Scenario& sc = rs.sc;
    std::vector<std::array<long, 7>> per;
    std::array<long, 7> merged{{0, 0, 0, 0, 0, 0, 0}};
    if (!w.counters(per, merged, sc.schedSeed ^ 0xC18 ^ nbOpsDone)) return;
    std::vector<int> flagSeq;
    bool grew = false;
    int most = sc.threadsCtor, nExec = 0;
    for (size_t i = 0; i < nbOpsDone && i < sc.history.size(); ++i) {
        const HistOp& op = sc.history[i];
        if (op.op != "execute") continue;
        flagSeq.push_back(op.flags);
        const int t = op.threads > 0 ? op.threads : sc.threadsExec;
        if (nExec > 0 && t > most) grew = true;     // new per-thread kernels were then created as copies of a used one (K1)
        if (t > most) most = t;
        ++nExec;
    }
    RefValues ref = refEvaluate(ctx, w.view(), flagSeq);
    static const char* names[7] = {"P2M", "M2M", "M2L", "L2L", "L2P", "P2P", "P2PInner"};
    for (int k = 0; k < 7; ++k)
        if (merged[size_t(k)] != ref.counts[size_t(k)])
            ctx.addViolation("counter", std::string(names[k]) + (grew && sc.isTaskBased() && merged[size_t(k)] > ref.counts[size_t(k)] ? "@threads-grew-overcount" : ""),
                             std::string("merged ") + names[k] + " counter is " + std::to_string(merged[size_t(k)]) + " but the tree implies " + std::to_string(ref.counts[size_t(k)])
                             + " after " + std::to_string(flagSeq.size()) + " execute call(s) (" + std::to_string(per.size()) + " kernel copies)");
    // the periodic top-tree algorithm's own kernel: the extended tree has nbLevelsAbove0 + 5 levels; M2M aggregates the level-1 cells of
    // the real tree once and then 8 identical children per added level, M2L sees 7^3 - 3^3 images (one added level) or 6^3 - 3^3 per
    // added level, L2L hands down to one child per added level and finally to the level-1 cells.  Nothing at all for nbLevelsAbove0 = -1.
    std::array<long, 7> topc{{0, 0, 0, 0, 0, 0, 0}};
    if (w.topCounters(topc)) {
        long n1 = 0;
        for (const CellRec& c : w.view().cells) if (c.level == 1 && c.tree == 0) n1 += 1;
        const long L = sc.topLevels;
        std::array<long, 7> expect{{0, 0, 0, 0, 0, 0, 0}};
        for (size_t i = 0; i < nbOpsDone && i < sc.history.size(); ++i) {
            const HistOp& op = sc.history[i];
            if (op.op != "top" || L < 0) continue;
            if (op.flags & F_M2M) expect[1] += n1 + 8 * L;
            if (op.flags & F_M2L) expect[2] += (L == 0 ? 316 : 189 * (L + 1));
            if (op.flags & F_L2L) expect[3] += L + n1;
        }
        for (int k = 0; k < 7; ++k)
            if (topc[size_t(k)] != expect[size_t(k)])
                ctx.addViolation("counter", std::string("top.") + names[k], std::string("the top-tree algorithm's ") + names[k] + " counter is " + std::to_string(topc[size_t(k)])
                                 + " but the extended tree (nbLevelsAbove0 = " + std::to_string(L) + ", " + std::to_string(n1) + " level-1 cells) implies " + std::to_string(expect[size_t(k)]));
    }
    rs.drain("run");
}

// ---------------------------------------------------------------------------------------------
// C02 / C03 / C09 / C15 / C18: run the history with the scenario's executor under the sampled schedule and with the
// sequential twin; compare.
void recipeExec(RunState& rs) {
    Ctx& ctx = rs.ctx;
    const Scenario& sc = rs.sc;
    const bool counter = sc.kernel.rfind("counter_", 0) == 0;

    Scenario tw = sc;
    tw.executor = sc.isTsm() ? "seqtsm" : "seq";
    if (counter) tw.kernel = sc.kernel.substr(8);        // the unwrapped kernel
    setStage("twin");
    std::unique_ptr<IWorld> twin = makeWorld(tw);
    twin->buildTree();
    ctx.view = &twin->view();
    checkComplete(ctx, twin->view(), "ref");
    rs.drain("twin");
    twin->makeAlgo();
    runHistory(rs, *twin, sc.history, false, "twin");

    // reference evaluation (WeightKernel layout only, no periodic images): attribution, and the C09 oracle
    const bool weightLayout = (tw.kernel == "weight" || tw.kernel == "weight_float" || tw.kernel == "weight_s62");
    bool hasTop = false;
    for (const HistOp& op : sc.history) if (op.op == "top") hasTop = true;
    if (weightLayout && !hasTop) {
        std::vector<int> flagSeq;
        for (const HistOp& op : sc.history) if (op.op == "execute") flagSeq.push_back(op.flags);
        RefValues ref = refEvaluate(ctx, twin->view(), flagSeq);
        compareWithRef(ctx, twin->view(), ref, "ref", true, true);
        rs.drain("twin");
    }

    const bool sameAsTwin = (!sc.isTaskBased() && !counter);
    std::unique_ptr<IWorld> world;
    if (!sameAsTwin) {
        setStage("build");
        ctx.sim.maxThreads = sc.threadsCtor;
        world = makeWorld(sc);
        world->buildTree();
        ctx.view = &world->view();
        checkComplete(ctx, world->view(), "ref");
        rs.drain("run");
        ctx.kernelWorkers.clear();
        rs.kernelIndexWorkers.clear();
        world->makeAlgo();
        rs.countersEachCall = counter;
        runHistory(rs, *world, sc.history, sc.isTaskBased(), "run");
        rs.countersEachCall = false;
        setStage("compare");
        if (sc.isNumeric())
            compareViewsTol(ctx, world->view(), twin->view(), sc.isFloat() ? 1e-3 : 1e-9, "value", "task-based executor vs sequential executor (floating-point kernel)");
        else
            compareViews(ctx, world->view(), twin->view(), (1u << BUF_MULT) | (1u << BUF_LOCAL) | (1u << BUF_RHS), counter ? "counter-result" : "value",
                         std::string(counter ? "counter-wrapped kernel vs plain kernel" : "task-based executor vs sequential executor"));
        compareViews(ctx, world->view(), twin->view(), (1u << BUF_CELL_SYMB) | (1u << BUF_PART_SYMB), "symbolic-changed", "symbolic data after execute vs sequential twin");
        rs.drain("run");
        if (weightLayout && !counter && !hasTop && sc.isTsm()) {
            std::vector<int> flagSeq;
            for (const HistOp& op : sc.history) if (op.op == "execute") flagSeq.push_back(op.flags);
            RefValues ref = refEvaluate(ctx, world->view(), flagSeq);
            compareWithRef(ctx, world->view(), ref, "ref", true, true);
            rs.drain("run");
        }
        checkKernelObjects(rs, *world, "run");
        if (counter) checkCounters(rs, *world, sc.history.size());
    }
    setStage("teardown");
    if (world) { world->destroyAlgo(); world->destroyTree(); }
    twin->destroyAlgo();
    twin->destroyTree();
}


// ---------------------------------------------------------------------------------------------
// C12: the staged history (sc.history) against one full run by the same executor on an identical tree.
void recipeStaged(RunState& rs) {
    Ctx& ctx = rs.ctx;
    const Scenario& sc = rs.sc;
    int unionFlags = 0;
    for (const HistOp& op : sc.history) if (op.op == "execute") unionFlags |= op.flags;

    setStage("build");
    ctx.sim.maxThreads = sc.threadsCtor;
    std::unique_ptr<IWorld> full = makeWorld(sc);
    full->buildTree();
    ctx.view = &full->view();
    full->makeAlgo();
    if (sc.variant == "staged") {
        HistOp one; one.op = "execute"; one.flags = unionFlags;
        doExecute(rs, *full, one, sc.isTaskBased(), "full");
    } else if (sc.variant == "topstaged") {
        // reference: the documented order -- first stage, ONE top-tree call with the union of the flags, then the remaining stages
        std::vector<HistOp> merged;
        HistOp topAll; topAll.op = "top"; topAll.flags = 0;
        for (const HistOp& op : sc.history) if (op.op == "top") topAll.flags |= op.flags;
        bool placed = false;
        for (const HistOp& op : sc.history) {
            if (op.op == "top") continue;
            merged.push_back(op);
            if (!placed) { merged.push_back(topAll); placed = true; }
        }
        runHistory(rs, *full, merged, sc.isTaskBased(), "full");
    }
    std::unique_ptr<IWorld> staged = makeWorld(sc);
    staged->buildTree();
    ctx.view = &staged->view();
    staged->makeAlgo();
    runHistory(rs, *staged, sc.history, sc.isTaskBased(), "run");
    if (sc.variant == "staged" || sc.variant == "topstaged") {
        setStage("compare");
        if (sc.isNumeric())   // floating-point kernels: the order in which P2P / L2P (and commutative tasks) accumulate differs between the two runs
            compareViewsTol(ctx, staged->view(), full->view(), sc.isFloat() ? 1e-3 : 1e-9, "staged-vs-full", "staged execute() calls vs one full run of the same executor (floating-point kernel)");
        else
        compareViews(ctx, staged->view(), full->view(), (1u << BUF_MULT) | (1u << BUF_LOCAL) | (1u << BUF_RHS) | (1u << BUF_CELL_SYMB) | (1u << BUF_PART_SYMB),
                     "staged-vs-full", "staged execute() calls vs one full run of the same executor");
        rs.drain("run");
    }
    setStage("teardown");
    staged->destroyAlgo(); staged->destroyTree();
    full->destroyAlgo(); full->destroyTree();
}

// ---------------------------------------------------------------------------------------------
// C13: move / rebuild / execute histories against the flat particle model (ctx.inputs) and freshly built trees.
using Bytes = std::vector<unsigned char>;

std::map<std::pair<int, long>, Bytes> rhsByIndex(const TreeView& v) {
    std::map<std::pair<int, long>, Bytes> m;
    for (const LeafRec& l : v.leaves) for (long i = 0; i < l.n; ++i) {
        Bytes b;
        for (size_t k = 0; k < l.rhs.size(); ++k) if (l.rhs[k]) b.insert(b.end(), l.rhs[k] + size_t(i) * v.rhsElem, l.rhs[k] + size_t(i + 1) * v.rhsElem);
        m[std::make_pair(l.tree, l.indexes[i])] = b;
    }
    return m;
}

void applyMoves(Ctx& ctx, TreeView& v, const HistOp& op) {
    std::map<std::pair<int, long>, std::pair<const LeafRec*, long>> where;
    for (const LeafRec& l : v.leaves) for (long i = 0; i < l.n; ++i) where[std::make_pair(l.tree, l.indexes[i])] = std::make_pair(&l, i);
    for (const MoveRec& m : op.moves) {
        auto it = where.find(std::make_pair(m.tree, m.index));
        if (it == where.end()) continue;
        for (int d = 0; d < 3; ++d) {
            if (v.dataElem == sizeof(float)) reinterpret_cast<float*>(it->second.first->data[size_t(d)])[it->second.second] = float(m.pos[size_t(d)]);
            else reinterpret_cast<double*>(it->second.first->data[size_t(d)])[it->second.second] = m.pos[size_t(d)];
            ctx.inputs[m.tree][size_t(m.index)][size_t(d)] = m.pos[size_t(d)];
        }
    }
}

void checkAfterRebuild(RunState& rs, IWorld& w, const std::map<std::pair<int, long>, Bytes>& rhsBefore) {
    Ctx& ctx = rs.ctx;
    const Scenario& sc = rs.sc;
    const TreeView& v = w.view();
    // (a) every index exactly once, data bit-identical to the model, (e) inside its leaf
    std::map<std::pair<int, long>, int> seen;
    const double lwDiv = double(1L << (ctx.height - 1));
    for (const LeafRec& l : v.leaves) {
        if (l.n < 1) ctx.addViolation("rebuild:structure", "empty-leaf", "a leaf without particles exists after rebuild");
        for (long i = 0; i < l.n; ++i) {
            const long oi = l.indexes[i];
            if (oi < 0 || oi >= long(ctx.inputs[l.tree].size())) { ctx.addViolation("rebuild:identity", "index-range", "particle index " + std::to_string(oi) + " out of range after rebuild"); continue; }
            seen[std::make_pair(l.tree, oi)] += 1;
            for (size_t k = 0; k < l.data.size(); ++k) {
                bool same;
                const double expect = k < 4 ? ctx.inputs[l.tree][size_t(oi)][k] : ctx.extraData(oi, k);
                if (v.dataElem == sizeof(float)) { float f; std::memcpy(&f, l.data[k] + size_t(i) * sizeof(float), sizeof f); same = (f == float(expect)); }
                else { double d; std::memcpy(&d, l.data[k] + size_t(i) * sizeof(double), sizeof d); same = std::memcmp(&d, &expect, sizeof d) == 0; }
                if (!same) {
                    ctx.addViolation("rebuild:data", k < 3 ? "position" : "data-value", "particle " + std::to_string(oi) + ": value " + std::to_string(k) + " differs from the edited particle after rebuild");
                    break;
                }
            }
            for (int d = 0; d < 3; ++d) if (l.coord[size_t(d)] < 0 || double(l.coord[size_t(d)]) >= lwDiv) {
                ctx.addViolation("rebuild:binning", "outside-grid", "after rebuild a leaf lies outside the grid of the leaf level");
                break;
            }
            for (int d = 0; d < 3; ++d) {
                const double rel = ctx.inputs[l.tree][size_t(oi)][size_t(d)] - ctx.corner[d];
                const double lw = ctx.width[d] / lwDiv;
                const double tol = 16.0 * (ctx.isFloat ? 1.2e-7 : 2.3e-16) * (std::abs(ctx.width[d]) + std::abs(ctx.corner[d]));
                if (rel < double(l.coord[size_t(d)]) * lw - tol || rel > double(l.coord[size_t(d)] + 1) * lw + tol) {
                    ctx.addViolation("rebuild:binning", "outside-leaf", "particle " + std::to_string(oi) + " does not lie in the leaf that holds it after rebuild");
                    break;
                }
            }
        }
    }
    for (int t = 0; t < (sc.isTsm() ? 2 : 1); ++t)
        for (long i = 0; i < long(ctx.inputs[t].size()); ++i) {
            auto it = seen.find(std::make_pair(t, i));
            if (it == seen.end()) { ctx.addViolation("rebuild:identity", "lost", "particle " + std::to_string(i) + " of tree " + std::to_string(t) + " is missing after rebuild"); break; }
            if (it->second != 1) { ctx.addViolation("rebuild:identity", "duplicated", "particle " + std::to_string(i) + " appears " + std::to_string(it->second) + " times after rebuild"); break; }
        }
    // (b) results preserved by original index
    auto now = rhsByIndex(v);
    for (auto& kv : rhsBefore) {
        auto it = now.find(kv.first);
        if (it == now.end()) continue;
        if (it->second != kv.second) { ctx.addViolation("rebuild:results", "not-preserved", "accumulated results of particle " + std::to_string(kv.first.second) + " changed across rebuild"); break; }
    }
    // (c) expansions reset
    for (const CellRec& c : v.cells) {
        bool z = true;
        for (size_t b = 0; b < c.multBytes; ++b) if (c.mult[b]) z = false;
        for (size_t b = 0; b < c.localBytes; ++b) if (c.local[b]) z = false;
        if (!z) { ctx.addViolation("rebuild:cells", "not-zero", "expansion of cell L" + std::to_string(c.level) + " is not zero after rebuild"); break; }
    }
    // (d) structure equals that of a freshly built tree with the same parameters (the automatic block size is estimated once,
    //     at construction, and kept by rebuild(): the fresh tree is given the value the rebuilt tree uses)
    Scenario freshSc = sc;
    freshSc.blockSize = w.effectiveBlockSize();
    std::unique_ptr<IWorld> fresh = makeWorld(freshSc);
    fresh->buildTree();
    const TreeView& f = fresh->view();
    if (f.bufs.size() != v.bufs.size()) ctx.addViolation("rebuild:structure", "groups", "rebuild produced " + std::to_string(v.bufs.size()) + " buffers, a fresh tree has " + std::to_string(f.bufs.size()));
    else for (size_t i = 0; i < f.bufs.size(); ++i)
        if (f.bufs[i].bytes != v.bufs[i].bytes || f.bufs[i].kind != v.bufs[i].kind || f.bufs[i].level != v.bufs[i].level) { ctx.addViolation("rebuild:structure", "group-shape", "group " + v.bufs[i].name() + " differs in shape from the fresh tree's"); break; }
    if (f.cells.size() != v.cells.size()) ctx.addViolation("rebuild:structure", "cells", "rebuild has " + std::to_string(v.cells.size()) + " cells, a fresh tree " + std::to_string(f.cells.size()));
    else for (size_t i = 0; i < f.cells.size(); ++i)
        if (f.cells[i].level != v.cells[i].level || f.cells[i].coord != v.cells[i].coord || f.cells[i].group != v.cells[i].group || f.cells[i].tree != v.cells[i].tree) { ctx.addViolation("rebuild:structure", "cell", "cell #" + std::to_string(i) + " differs from the fresh tree's"); break; }
    if (f.leaves.size() != v.leaves.size()) ctx.addViolation("rebuild:structure", "leaves", "rebuild has " + std::to_string(v.leaves.size()) + " leaves, a fresh tree " + std::to_string(f.leaves.size()));
    else for (size_t i = 0; i < f.leaves.size(); ++i) {
        const LeafRec& a = v.leaves[i]; const LeafRec& b = f.leaves[i];
        std::multiset<long> sa(a.indexes, a.indexes + a.n), sb(b.indexes, b.indexes + b.n);
        if (a.coord != b.coord || a.tree != b.tree || a.group != b.group || sa != sb) { ctx.addViolation("rebuild:structure", "leaf-members", "leaf #" + std::to_string(i) + " differs from the fresh tree's (coordinate or members)"); break; }
    }
    fresh->destroyTree();
    ctx.view = &w.view();
    // the fresh world re-registered buffer names for its own tree: restore this tree's
    for (const BufRec& b : w.view().bufs) ctx.sim.registerName(b.ptr, b.name());
    rs.drain("run");
}

void recipeRebuild(RunState& rs) {
    Ctx& ctx = rs.ctx;
    const Scenario& sc = rs.sc;
    rs.rebuildRecipe = true;
    setStage("build");
    ctx.sim.maxThreads = sc.threadsCtor;
    std::unique_ptr<IWorld> w = makeWorld(sc);
    w->buildTree();
    ctx.view = &w->view();
    w->makeAlgo();
    bool cellsZero = true;
    uint64_t qseed = sc.schedSeed ^ 0x51;
    // lookups on the freshly built tree are a pure function of the input (C16, not claimed: class "query"); lookups on a REBUILT tree must
    // behave like those on a fresh one whatever the tree remembered from before the rebuild (C13: class "rebuild:query")
    auto doQuery = [&](bool afterRebuild) {
        setStage("query");
        const long wrong = w->query(qseed++);
        if (wrong) { ctx.addViolation(afterRebuild ? "rebuild:query" : "query", "find", std::to_string(wrong) + " lookups through findGroupWithLeaf/findGroupWithCell gave a wrong answer" + (afterRebuild ? " after rebuild()" : "")); rs.drain("run"); }
    };
    doQuery(false);
    for (const HistOp& op : sc.history) {
        if (op.op == "move") {
            applyMoves(ctx, w->view(), op);
        } else if (op.op == "rebuild") {
            setStage("rebuild");
            auto before = rhsByIndex(w->view());
            ctx.sim.scribbleStack();
            if (!w->rebuild()) { ctx.addViolation("rebuild:not-instantiable", sc.ordering, "TbfTree::rebuild() does not instantiate for the " + sc.ordering + " ordering"); rs.drain("run"); break; }
            ctx.view = &w->view();
            setStage("rebuild-oracle");
            checkAfterRebuild(rs, *w, before);
            doQuery(true);
            cellsZero = true;
        } else if (op.op == "top") {
            doExecute(rs, *w, op, sc.isTaskBased(), "run");
            cellsZero = false;
        } else if (op.op == "execute") {
            // expected = preserved results + results of the same executor on a freshly built tree
            auto before = rhsByIndex(w->view());
            std::map<std::pair<int, long>, Bytes> freshRes;
            const bool predict = cellsZero && ctx.view->rhsElem == sizeof(unsigned long);
            if (predict) {
                Scenario freshSc = sc;
                freshSc.blockSize = w->effectiveBlockSize();
                std::unique_ptr<IWorld> fresh = makeWorld(freshSc);
                fresh->buildTree();
                ctx.view = &fresh->view();
                fresh->makeAlgo();
                doExecute(rs, *fresh, op, sc.isTaskBased(), "fresh");
                freshRes = rhsByIndex(fresh->view());
                fresh->destroyAlgo(); fresh->destroyTree();
                ctx.view = &w->view();
                for (const BufRec& b : w->view().bufs) ctx.sim.registerName(b.ptr, b.name());
            }
            doExecute(rs, *w, op, sc.isTaskBased(), "run");
            if (predict) {
                auto now = rhsByIndex(w->view());
                for (auto& kv : now) {
                    const Bytes& b0 = before[kv.first];
                    const Bytes& bf = freshRes[kv.first];
                    if (b0.size() != kv.second.size() || bf.size() != kv.second.size()) continue;
                    bool ok = true;
                    for (size_t o = 0; o + sizeof(unsigned long) <= kv.second.size(); o += sizeof(unsigned long)) {
                        unsigned long a, b, c;
                        std::memcpy(&a, &b0[o], sizeof a); std::memcpy(&b, &bf[o], sizeof b); std::memcpy(&c, &kv.second[o], sizeof c);
                        if (a + b != c) ok = false;
                    }
                    if (!ok) { ctx.addViolation("rebuild:execute-after", "results", "after rebuild + execute, particle " + std::to_string(kv.first.second) + " does not hold preserved results + one full interaction of the rebuilt configuration"); break; }
                }
                rs.drain("run");
            }
            cellsZero = false;
        }
    }
    setStage("teardown");
    w->destroyAlgo(); w->destroyTree();
}

}  // namespace

Json runScenario(const Scenario& sc) {
    Ctx& ctx = *g_ctx;
    ctx.resetRun();
    ctx.runKey = sc.runKey;
    ctx.kernelParam = sc.ctorWithKernel ? (wkHash(sc.runKey, 0xC7, 1, 2) | 1) : 0;
    ctx.topTreeCall = false;
    prepareInputs(ctx, sc);
    setupSim(ctx, sc);
    RunState rs(ctx, sc);
    std::string fatal;
    try {
        bool hasRebuild = false;
        for (const HistOp& op : sc.history) if (op.op == "rebuild") hasRebuild = true;
        if (sc.prop == "C12") recipeStaged(rs);
        else if (sc.prop == "C13" || hasRebuild) recipeRebuild(rs);
        else recipeExec(rs);
    } catch (const std::exception& e) {
        fatal = e.what();
    }
    rs.drain("run");
    Json r = Json::object();
    r.set("seed", (long long)sc.seed).set("sub", sc.sub).set("prop", sc.prop).set("executor", sc.executor).set("ordering", sc.ordering).set("kernel", sc.kernel);
    char hb[32];
    std::snprintf(hb, sizeof hb, "%016llx", (unsigned long long)ctx.sim.eventHash);
    r.set("hash", std::string(hb));
    r.set("steps", ctx.sim.steps);
    r.set("height", sc.height).set("n", (long)sc.src.size()).set("nt", (long)sc.tgt.size()).set("threads", sc.threadsExec);
    r.set("stats", statsJson(rs, ctx));
    {
        Json a = Json::array(), b = Json::array();
        for (auto& x : rs.kindPairsInverted) a.push(x);
        for (auto& x : rs.kindPairsNested) b.push(x);
        r.set("inverted_pairs", a).set("nested_pairs", b);
    }
    Json pol = Json::object();
    pol.set("p_create", sc.policy.pCreate).set("p_yield", sc.policy.pYield).set("p_deep", sc.policy.pDeep).set("pick", sc.policy.pick).set("worker_mode", sc.policy.workerMode)
       .set("scribble", sc.policy.scribble).set("team_shrink", sc.policy.teamShrink);
    r.set("policy", pol);
    Json fe = Json::array();
    for (auto& e : rs.fwErrors) fe.push(e);
    if (!fatal.empty()) fe.push("exception: " + fatal);
    r.set("fw_errors", fe);
    r.set("viol", violationsJson(rs));
    if (!rs.out.empty() || !rs.fwErrors.empty()) {
        Scenario full = sc;
        full.haveDecisions = true;
        full.decisions = ctx.sim.decisions;
        r.set("scenario", full.toJson());
    }
    r.set("decisions", (long)ctx.sim.decisions.size());
    return r;
}

}  // namespace tbfsim
