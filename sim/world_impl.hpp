// Template part of the worlds: includes the real tbfmm headers.  Included by the w_*.cpp translation units only.
#ifndef TBFSIM_WORLD_IMPL_HPP
#define TBFSIM_WORLD_IMPL_HPP

#include "tbfglobal.hpp"
#include "utils/tbfutils.hpp"
#include "spacial/tbfspacialconfiguration.hpp"
#include "spacial/tbfmortonspaceindex.hpp"
#include "core/tbfcellscontainer.hpp"
#include "core/tbfparticlescontainer.hpp"
#include "core/tbfparticlesorter.hpp"
#include "core/tbftree.hpp"
#include "core/tbftreetsm.hpp"
#include "algorithms/tbfalgorithmutils.hpp"
#include "algorithms/sequential/tbfalgorithm.hpp"
#include "algorithms/sequential/tbfalgorithmtsm.hpp"

#include "world.hpp"
#include <set>
#include <cstdlib>
#include "weightkernel.hpp"

namespace tbfsim {

enum ExecKind : int { EX_SEQ = 0, EX_OMP, EX_SEQ_TSM, EX_OMP_TSM, EX_SPECX, EX_SPECX_TSM, EX_STARPU, EX_STARPU_TSM };
constexpr bool execIsTsm(int e) { return e == EX_SEQ_TSM || e == EX_OMP_TSM || e == EX_SPECX_TSM || e == EX_STARPU_TSM; }
constexpr bool execIsTask(int e) { return e != EX_SEQ && e != EX_SEQ_TSM; }

template <class Cfg, int Exec> struct AlgoSelect;   // specialised where the executor's header is included
template <class Cfg> struct AlgoSelect<Cfg, EX_SEQ> { using type = TbfAlgorithm<typename Cfg::Real, Probe<typename Cfg::Inner>, typename Cfg::Space>; };
template <class Cfg> struct AlgoSelect<Cfg, EX_SEQ_TSM> { using type = TbfAlgorithmTsm<typename Cfg::Real, Probe<typename Cfg::Inner>, typename Cfg::Space>; };

// hooks a runtime stub may need around execute() (thread counts etc.); default: nothing
template <class Algo> struct AlgoHooks {
    template <class Conf> static Algo* create(const Conf& conf, long upper) { return new Algo(conf, upper); }
};

template <class T> struct IsVoidData : std::is_same<T, void_data> {};

struct NoTop {
    template <class C> NoTop(const C&, long) {}
    template <class T> void execute(T&, int) {}
};

// defaults shared by every configuration: how the prototype kernel of the executor is made
struct CfgCommon {
    static constexpr bool kernelCtorOnly = false;
    template <class K> static auto giveParam(K& k, int) -> decltype(k.setParam(0UL), void()) { k.setParam(g_ctx->kernelParam); }
    template <class K> static void giveParam(K&, long) {}
    template <class PK, class Conf> static PK make(const Conf& c) { PK k(c); giveParam(k, 0); return k; }
    template <class PK> using TopAlgo = NoTop;
    template <class PK> using TopAlgoTsm = NoTop;
};

template <class CellGroups>
void addCellGroups(TreeView& v, int tree, int level, CellGroups& groups) {
    int g = 0;
    for (auto& grp : groups) {
        using Grp = typename std::decay<decltype(grp)>::type;
        using Mult = typename Grp::MultipoleClass;
        using Loc = typename Grp::LocalClass;
        v.bufs.push_back(BufRec{tree, BUF_CELL_SYMB, level, g, grp.getDataPtr(), size_t(grp.getDataSize())});
        v.bufs.push_back(BufRec{tree, BUF_MULT, level, g, grp.getMultipolePtr(), size_t(grp.getMultipoleSize())});
        v.bufs.push_back(BufRec{tree, BUF_LOCAL, level, g, grp.getLocalPtr(), size_t(grp.getLocalSize())});
        for (long i = 0; i < grp.getNbCells(); ++i) {
            CellRec c;
            c.tree = tree; c.level = level; c.group = g; c.idx = int(i);
            const auto& h = grp.getCellSymbData(i);
            c.coord = Coord{h.boxCoord[0], h.boxCoord[1], h.boxCoord[2]};
            c.spaceIndex = long(h.spaceIndex);
            c.hdr = reinterpret_cast<const unsigned char*>(&h);
            c.mult = reinterpret_cast<unsigned char*>(&grp.getCellMultipole(i));
            c.multBytes = IsVoidData<Mult>::value ? 0 : sizeof(Mult);
            c.local = reinterpret_cast<unsigned char*>(&grp.getCellLocal(i));
            c.localBytes = IsVoidData<Loc>::value ? 0 : sizeof(Loc);
            v.cells.push_back(c);
        }
        ++g;
    }
}

template <class PartGroups>
void addParticleGroups(TreeView& v, int tree, PartGroups& groups) {
    int g = 0;
    for (auto& grp : groups) {
        v.bufs.push_back(BufRec{tree, BUF_PART_SYMB, -1, g, grp.getDataPtr(), size_t(grp.getDataSize())});
        v.bufs.push_back(BufRec{tree, BUF_RHS, -1, g, grp.getRhsPtr(), size_t(grp.getRhsSize())});
        for (long i = 0; i < grp.getNbLeaves(); ++i) {
            LeafRec l;
            l.tree = tree; l.group = g; l.idx = int(i);
            const auto& h = grp.getLeafSymbData(i);
            l.coord = Coord{h.boxCoord[0], h.boxCoord[1], h.boxCoord[2]};
            l.spaceIndex = long(h.spaceIndex);
            l.n = h.nbParticles;
            l.offset = h.offSet;
            l.hdr = reinterpret_cast<const unsigned char*>(&h);
            l.indexes = grp.getParticleIndexes(i);
            auto data = grp.getParticleData(i);
            for (size_t k = 0; k < data.size(); ++k) l.data.push_back(reinterpret_cast<unsigned char*>(data[k]));
            auto rhs = grp.getParticleRhs(i);
            for (size_t k = 0; k < rhs.size(); ++k) l.rhs.push_back(reinterpret_cast<unsigned char*>(rhs[k]));
            v.leaves.push_back(l);
        }
        ++g;
    }
}

template <class Cfg, int Exec>
class World : public IWorld {
public:
    using Real = typename Cfg::Real;
    using Space = typename Cfg::Space;
    using PK = Probe<typename Cfg::Inner>;
    using Conf = TbfSpacialConfiguration<Real, 3>;
    static constexpr bool Tsm = execIsTsm(Exec);
    using TreeSingle = TbfTree<Real, Real, Cfg::NbData, typename Cfg::Rhs, Cfg::NbRhs, typename Cfg::Mult, typename Cfg::Loc, Space>;
    using TreeTsm = TbfTreeTsm<Real, Real, Cfg::NbData, typename Cfg::Rhs, Cfg::NbRhs, typename Cfg::Mult, typename Cfg::Loc, Space>;
    using Tree = typename std::conditional<Tsm, TreeTsm, TreeSingle>::type;
    using Algo = typename AlgoSelect<Cfg, Exec>::type;
    using Top = typename std::conditional<Tsm, typename Cfg::template TopAlgoTsm<PK>, typename Cfg::template TopAlgo<PK>>::type;

private:
    Scenario sc;
    std::unique_ptr<Conf> conf;
    std::unique_ptr<Tree> tree;
    std::unique_ptr<Algo> algo;
    std::unique_ptr<Top> top;
    TreeView tv;

    static std::vector<std::array<Real, Cfg::NbData>> particles(int t) {
        std::vector<std::array<Real, Cfg::NbData>> out;
        for (const auto& p : g_ctx->inputs[t]) {
            std::array<Real, Cfg::NbData> q;
            const long idx = long(out.size());
            for (long k = 0; k < Cfg::NbData; ++k) q[size_t(k)] = Real(k < 4 ? p[size_t(k)] : g_ctx->extraData(idx, size_t(k)));
            out.push_back(q);
        }
        return out;
    }

    void refreshView() {
        tv = TreeView();
        tv.height = sc.height;
        tv.nbTrees = Tsm ? 2 : 1;
        tv.dataElem = sizeof(Real);
        tv.rhsElem = sizeof(typename Cfg::Rhs);
        tv.nbData = int(Cfg::NbData);
        tv.nbRhs = int(Cfg::NbRhs);
        if constexpr (Tsm) {
            for (int l = 0; l < sc.height; ++l) addCellGroups(tv, 0, l, tree->getCellGroupsAtLevelSource(l));
            addParticleGroups(tv, 0, tree->getParticleGroupsSource());
            for (int l = 0; l < sc.height; ++l) addCellGroups(tv, 1, l, tree->getCellGroupsAtLevelTarget(l));
            addParticleGroups(tv, 1, tree->getParticleGroupsTarget());
        } else {
            for (int l = 0; l < sc.height; ++l) addCellGroups(tv, 0, l, tree->getCellGroupsAtLevel(l));
            addParticleGroups(tv, 0, tree->getParticleGroups());
        }
        tv.index();
        for (const BufRec& b : tv.bufs) g_ctx->sim.registerName(b.ptr, b.name());
    }

public:
    explicit World(const Scenario& s) : sc(s) {
        std::array<Real, 3> w{{Real(s.width[0]), Real(s.width[1]), Real(s.width[2])}};
        std::array<Real, 3> c{{Real(s.centre[0]), Real(s.centre[1]), Real(s.centre[2])}};
        conf.reset(new Conf(s.height, w, c));
        Ctx& x = *g_ctx;
        x.height = s.height;
        x.periodic = Cfg::periodic;
        x.upper = s.upper < 0 ? 0 : s.upper;
        for (int d = 0; d < 3; ++d) { x.corner[d] = double(conf->getBoxCorner()[size_t(d)]); x.width[d] = double(conf->getBoxWidths()[size_t(d)]); }
        x.isFloat = std::is_same<Real, float>::value;
        x.tsm = Tsm;
    }
    ~World() override { algo.reset(); top.reset(); tree.reset(); }

    void buildTree() override {
        g_ctx->sim.clearNames();
        // block size -1 = the library's automatic estimate (TbfBlockSizeFinder): let it run without the TBFMM_BLOCK_SIZE override
        struct EnvGuard { bool on; explicit EnvGuard(bool o) : on(o) { if (on) unsetenv("TBFMM_BLOCK_SIZE"); } ~EnvGuard() { if (on) setenv("TBFMM_BLOCK_SIZE", "4", 1); } } envGuard(sc.blockSize == -1);
        if constexpr (Tsm) tree.reset(new Tree(*conf, particles(0), particles(1), sc.blockSize, sc.oneGroupPerParent));
        else tree.reset(new Tree(*conf, particles(0), sc.blockSize, sc.oneGroupPerParent));
        refreshView();
    }
    void destroyTree() override { tree.reset(); tv = TreeView(); }
    void makeAlgo() override {
        g_ctx->topMult.clear(); g_ctx->topLocal.clear();
        // four ways to build an executor: (configuration | configuration + kernel) x (explicit upper level | default)
        if constexpr (Cfg::kernelCtorOnly) {
            PK proto = Cfg::template make<PK>(*conf);
            if (sc.upperDefault) algo.reset(new Algo(*conf, proto)); else algo.reset(new Algo(*conf, proto, sc.upper));
        } else {
            if (sc.ctorWithKernel) {
                PK proto = Cfg::template make<PK>(*conf);
                if (sc.upperDefault) algo.reset(new Algo(*conf, proto)); else algo.reset(new Algo(*conf, proto, sc.upper));
            } else {
                if (sc.upperDefault) algo.reset(new Algo(*conf)); else algo.reset(AlgoHooks<Algo>::create(*conf, sc.upper));
            }
        }
        if constexpr (Cfg::periodic) { if (sc.topLevels >= -1) top.reset(new Top(*conf, sc.topLevels)); }
    }
    void destroyAlgo() override { algo.reset(); top.reset(); }
    void execute(int flags) override { algo->execute(*tree, flags); }
    void topExecute(int flags) override {
        if constexpr (Cfg::periodic) {
            if (top) { g_ctx->topTreeCall = true; top->execute(*tree, flags); g_ctx->topTreeCall = false; }
        } else { (void)flags; }
    }
    bool rebuild() override {
        if constexpr (Cfg::canRebuild) { g_ctx->sim.clearNames(); tree->rebuild(); refreshView(); return true; }
        else return false;
    }
    TreeView& view() override { return tv; }
    void kernelObjects(std::vector<const void*>& out) override {
        algo->applyToAllKernels([&out](const auto& k) { out.push_back(static_cast<const void*>(&k)); });
    }
    bool counters(std::vector<std::array<long, 7>>& perKernel, std::array<long, 7>& merged, uint64_t mergeSeed) override {
        if constexpr (Cfg::hasCounters) {
            using RT = typename Cfg::Inner::ReduceType;
            std::vector<RT> all;
            algo->applyToAllKernels([&all](const auto& k) { all.push_back(k.getReduceData()); });
            for (const RT& r : all) perKernel.push_back(std::array<long, 7>{{r.P2M, r.M2M, r.M2L, r.L2L, r.L2P, r.P2P, r.P2PInner}});
            // documented merge (ReduceType::Reduce), in a seeded order and association
            Prng rng(mergeSeed);
            while (all.size() > 1) {
                const size_t a = size_t(rng.below(all.size()));
                size_t b = size_t(rng.below(all.size() - 1));
                if (b >= a) b += 1;
                RT r = RT::Reduce(all[a], all[b]);
                all[a < b ? a : b] = r;
                all.erase(all.begin() + long(a < b ? b : a));
            }
            const RT m = all.empty() ? RT() : all[0];
            merged = std::array<long, 7>{{m.P2M, m.M2M, m.M2L, m.L2L, m.L2P, m.P2P, m.P2PInner}};
            return true;
        } else { (void)perKernel; (void)merged; (void)mergeSeed; return false; }
    }
    bool topCounters(std::array<long, 7>& counts) override {
        if constexpr (Cfg::hasCounters && Cfg::periodic) {
            if (!top) return false;
            counts = std::array<long, 7>{{0, 0, 0, 0, 0, 0, 0}};
            top->applyToAllKernels([&counts](const auto& k) {
                const auto r = k.getReduceData();
                const long v[7] = {r.P2M, r.M2M, r.M2L, r.L2L, r.L2P, r.P2P, r.P2PInner};
                for (int i = 0; i < 7; ++i) counts[size_t(i)] += v[i];
            });
            return true;
        } else { (void)counts; return false; }
    }
    bool isTaskBased() const override { return execIsTask(Exec); }
    long effectiveBlockSize() override {
        if constexpr (Tsm) return tree->getNbElementsPerGroupSource(); else return tree->getNbElementsPerGroup();
    }
    long query(uint64_t seed) override {
        // every leaf and cell the tree holds must be found, at the recorded place; random other indexes must be found iff they exist
        long wrong = 0;
        Prng r(seed);
        std::vector<std::pair<int, long>> leafIdx;
        std::set<std::pair<int, long>> haveLeaf;
        for (const LeafRec& l : tv.leaves) { leafIdx.emplace_back(l.tree, l.spaceIndex); haveLeaf.insert(std::make_pair(l.tree, l.spaceIndex)); }
        const long upperBound = 1L << (3 * (sc.height - 1));
        for (int k = 0; k < 8; ++k) leafIdx.emplace_back(int(r.below(Tsm ? 2 : 1)), long(r.below(uint64_t(upperBound > 0 ? upperBound : 1))));
        // visit in a seeded order so that consecutive lookups jump between groups
        for (size_t i = leafIdx.size(); i > 1; --i) std::swap(leafIdx[i - 1], leafIdx[size_t(r.below(i))]);
        for (auto& q : leafIdx) {
            bool found;
            long gotIndex = -1;
            if constexpr (Tsm) {
                if (q.first == 0) { auto f = tree->findGroupWithLeafSource(q.second); found = bool(f); if (f) gotIndex = long((*f).first.get().getLeafSpacialIndex((*f).second)); }
                else { auto f = tree->findGroupWithLeafTarget(q.second); found = bool(f); if (f) gotIndex = long((*f).first.get().getLeafSpacialIndex((*f).second)); }
            } else {
                auto f = tree->findGroupWithLeaf(q.second); found = bool(f); if (f) gotIndex = long((*f).first.get().getLeafSpacialIndex((*f).second));
            }
            const bool expect = haveLeaf.count(q) > 0;
            if (found != expect || (found && gotIndex != q.second)) wrong += 1;
        }
        size_t step = tv.cells.size() > 64 ? tv.cells.size() / 64 : 1;
        for (size_t i = 0; i < tv.cells.size(); i += step) {
            const CellRec& c = tv.cells[i];
            bool found;
            long gotIndex = -1;
            if constexpr (Tsm) {
                if (c.tree == 0) { auto f = tree->findGroupWithCellSource(c.level, c.spaceIndex); found = bool(f); if (f) gotIndex = long((*f).first.get().getCellSpacialIndex((*f).second)); }
                else { auto f = tree->findGroupWithCellTarget(c.level, c.spaceIndex); found = bool(f); if (f) gotIndex = long((*f).first.get().getCellSpacialIndex((*f).second)); }
            } else {
                auto f = tree->findGroupWithCell(c.level, c.spaceIndex); found = bool(f); if (f) gotIndex = long((*f).first.get().getCellSpacialIndex((*f).second));
            }
            if (!found || gotIndex != c.spaceIndex) wrong += 1;
        }
        return wrong;
    }
};


}  // namespace tbfsim
#endif
