#!/usr/bin/env python3
"""Regression of the checks against the stored seeded changes: applies each /verif/seeded/<id>/patch.diff to a scratch copy of /repo's
committed sources (outside /repo and /verif, removed at the end), runs the check of the property it breaks against that copy (quick tier,
reduced seeds), and writes /verif/seeded/RESULTS.md.
usage: tools/run_seeded_all.py [--seeds N] [id ...]"""
import json, os, subprocess, sys, time
ROOT = os.path.dirname(os.path.dirname(os.path.abspath(__file__)))
def sh(*a, **k): return subprocess.run(a, stdout=subprocess.PIPE, stderr=subprocess.STDOUT, text=True, **k)
def main():
    args = sys.argv[1:]
    seeds = "1500"
    if "--seeds" in args:
        i = args.index("--seeds"); seeds = args[i + 1]; del args[i:i + 2]
    ids = args or sorted(d for d in os.listdir(os.path.join(ROOT, "seeded")) if os.path.isdir(os.path.join(ROOT, "seeded", d)))
    if sh("git", "-C", "/repo", "diff", "--quiet").returncode != 0:
        print("/repo has uncommitted changes"); sys.exit(2)
    PRISTINE, SCR, BLD, EV = "/var/tmp/tbfsim_seedall_pristine", "/var/tmp/tbfsim_seedall_repo", "/var/tmp/tbfsim_seedall_build", "/var/tmp/tbfsim_seedall_ev"
    for d in (PRISTINE, SCR): sh("rm", "-rf", d)
    sh("rsync", "-a", "--exclude", "_build", "--exclude", ".git", "/repo/", PRISTINE + "/")
    env = dict(os.environ, TBFSIM_REPO=SCR, TBFSIM_BUILD=BLD)
    rows = []
    for sid in ids:
        d = os.path.join(ROOT, "seeded", sid)
        meta = json.load(open(os.path.join(d, "meta.json")))
        prop = meta["breaks_property"]
        sh("rsync", "-a", "--delete", PRISTINE + "/", SCR + "/")
        sh("find", SCR + "/src", "-type", "f", "-exec", "touch", "{}", "+")
        r = sh("patch", "-p1", "-s", "-i", os.path.join(d, "patch.diff"), cwd=SCR)
        if r.returncode != 0:
            rows.append((sid, prop, "patch does not apply", "")); print(rows[-1], r.stdout[-300:], flush=True); continue
        t0 = time.time()
        n = seeds if prop != "C12" else str(max(20, int(seeds) // 5))
        if prop == "C15": n = str(max(100, int(seeds) // 4))
        n = str(meta.get("regress_seeds", n))     # changes that need a rare conjunction state their own budget (still below the quick tier's)
        c = sh("python3", os.path.join(ROOT, "tools", "check.py"), prop, "--seeds", n, "--no-minimise", "--evidence-dir", EV, "--replay-dir", EV, env=env)
        keys = [l.split(" -- ")[0].replace("violation: ", "") for l in c.stdout.splitlines() if l.startswith("violation: ")]
        outcome = "DETECTED (exit %d, %.0fs)" % (c.returncode, time.time() - t0) if c.returncode == 1 else "exit %d" % c.returncode
        if c.returncode == 0 and meta.get("expected_outcome") == "not detected": outcome = "not detected (recorded as such, DESIGN.md 12.12)"
        rows.append((sid, prop, outcome, "; ".join(keys[:4])))
        print(rows[-1], flush=True)
    for d in (PRISTINE, SCR, BLD, EV): sh("rm", "-rf", d)
    if args:   # partial run: keep the other rows of the existing table
        have = {}
        try:
            for l in open(os.path.join(ROOT, "seeded", "RESULTS.md")):
                c = [x.strip() for x in l.strip().strip("|").split(" | ")]
                if len(c) >= 4 and c[0][:1] == "C" and "-" in c[0]: have[c[0]] = (c[0], c[1], c[2], " | ".join(c[3:]))
        except OSError: pass
        for r in rows: have[r[0]] = r
        rows = [have[k] for k in sorted(have)]
    with open(os.path.join(ROOT, "seeded", "RESULTS.md"), "w") as f:
        f.write("# Seeded changes against the checks\n\nWritten by tools/run_seeded_all.py (quick tier, %s scenarios per check; /repo at %s).\n\n| change | breaks | outcome of the property's check | first violation keys |\n|---|---|---|---|\n" % (seeds, sh("git", "-C", "/repo", "rev-parse", "--short", "HEAD").stdout.strip()))
        for r in rows: f.write("| %s | %s | %s | %s |\n" % r)
    bad = [r for r in rows if not r[2].startswith("DETECTED") and not r[2].startswith("not detected (recorded")]
    sys.exit(1 if bad else 0)
if __name__ == "__main__":
    main()
