#include "oracles.hpp"

#include <algorithm>
#include <cmath>

namespace tbfsim {

// ---------------------------------------------------------------------------------------------
long checkRaces(Ctx& ctx) {
    Sim& sim = ctx.sim;
    struct Iv { const unsigned char* lo; const unsigned char* hi; int task; bool write; int what; };
    std::vector<Iv> iv;
    iv.reserve(sim.observed.size());
    for (const ObservedAccess& a : sim.observed) if (a.task >= 0) iv.push_back(Iv{a.lo, a.hi, a.task, a.write, a.what});
    std::sort(iv.begin(), iv.end(), [](const Iv& a, const Iv& b) {
        if (a.lo != b.lo) return a.lo < b.lo;
        if (a.hi != b.hi) return a.hi < b.hi;
        if (a.task != b.task) return a.task < b.task;
        return a.write > b.write;
    });
    // unique (range, task), keeping "write" if any
    std::vector<Iv> u;
    for (const Iv& x : iv) {
        if (!u.empty() && u.back().lo == x.lo && u.back().hi == x.hi && u.back().task == x.task) { u.back().write = u.back().write || x.write; continue; }
        u.push_back(x);
    }
    long pairs = 0;
    std::set<std::pair<int, int>> reported;
    for (size_t i = 0; i < u.size(); ++i) {
        for (size_t j = i + 1; j < u.size() && u[j].lo < u[i].hi; ++j) {
            if (u[i].task == u[j].task) continue;
            if (!u[i].write && !u[j].write) continue;
            pairs += 1;
            const int a = std::min(u[i].task, u[j].task), b = std::max(u[i].task, u[j].task);
            if (sim.hb(a, b) || sim.mutexed(a, b)) continue;
            if (!reported.insert(std::make_pair(a, b)).second) continue;
            const Task& ta = *sim.tasks[size_t(a)];
            const Task& tb = *sim.tasks[size_t(b)];
            const std::string site = std::string(opName(ta.firstKind)) + "/" + opName(tb.firstKind) + ":" + bufName(u[i].what);
            ctx.addViolation("race", site,
                             "tasks " + sim.taskLabel(a) + " and " + sim.taskLabel(b) + " touch the same " + bufName(u[i].what)
                             + " bytes with a writer and are neither ordered nor mutually exclusive by their declared dependencies");
        }
    }
    return pairs;
}

// ---------------------------------------------------------------------------------------------
void checkComplete(Ctx& ctx, const TreeView& v, const std::string& cls) {
    for (int t = 0; t < v.nbTrees; ++t) {
        std::vector<int> seen(ctx.inputs[t].size(), 0);
        long held = 0;
        for (const LeafRec& l : v.leaves) if (l.tree == t) for (long i = 0; i < l.n; ++i) {
            held += 1;
            if (l.indexes[i] >= 0 && size_t(l.indexes[i]) < seen.size()) seen[size_t(l.indexes[i])] += 1;
        }
        if (held != long(seen.size())) { ctx.addViolation(cls, "particles-missing", "tree " + std::to_string(t) + " holds " + std::to_string(held) + " particles, " + std::to_string(seen.size()) + " were inserted"); continue; }
        for (size_t i = 0; i < seen.size(); ++i) if (seen[i] != 1) { ctx.addViolation(cls, "particles-missing", "particle " + std::to_string(i) + " of tree " + std::to_string(t) + " is held " + std::to_string(seen[i]) + " times"); break; }
    }
}

std::string locate(const TreeView& v, size_t bufIndex, size_t offset) {
    const BufRec& b = v.bufs[bufIndex];
    const unsigned char* p = b.ptr + offset;
    std::string s = b.name() + "+" + std::to_string(offset);
    for (const CellRec& c : v.cells) {
        if (b.kind == BUF_MULT && c.multBytes && p >= c.mult && p < c.mult + c.multBytes) return s + " (multipole of cell L" + std::to_string(c.level) + " (" + std::to_string(c.coord[0]) + "," + std::to_string(c.coord[1]) + "," + std::to_string(c.coord[2]) + "))";
        if (b.kind == BUF_LOCAL && c.localBytes && p >= c.local && p < c.local + c.localBytes) return s + " (local of cell L" + std::to_string(c.level) + " (" + std::to_string(c.coord[0]) + "," + std::to_string(c.coord[1]) + "," + std::to_string(c.coord[2]) + "))";
    }
    if (b.kind == BUF_RHS) {
        for (const LeafRec& l : v.leaves) for (size_t k = 0; k < l.rhs.size(); ++k)
            if (l.rhs[k] && p >= l.rhs[k] && p < l.rhs[k] + size_t(l.n) * v.rhsElem)
                return s + " (result row " + std::to_string(k) + " of particle " + std::to_string(l.indexes[size_t(p - l.rhs[k]) / v.rhsElem]) + ")";
    }
    return s;
}

void compareViews(Ctx& ctx, const TreeView& got, const TreeView& expect, unsigned kindsMask, const std::string& cls, const std::string& what) {
    if (got.bufs.size() != expect.bufs.size()) {
        ctx.addViolation(cls, "structure", what + ": " + std::to_string(got.bufs.size()) + " buffers, expected " + std::to_string(expect.bufs.size()));
        return;
    }
    for (size_t i = 0; i < got.bufs.size(); ++i) {
        const BufRec& g = got.bufs[i];
        const BufRec& e = expect.bufs[i];
        if (g.kind != e.kind || g.level != e.level || g.tree != e.tree || g.bytes != e.bytes) {
            ctx.addViolation(cls, "structure", what + ": buffer " + g.name() + " has a different shape than the reference tree's " + e.name());
            return;
        }
        if (!(kindsMask & (1u << g.kind))) continue;
        if (std::memcmp(g.ptr, e.ptr, g.bytes) == 0) continue;
        size_t off = 0;
        while (off < g.bytes && g.ptr[off] == e.ptr[off]) ++off;
        ctx.addViolation(cls, bufName(g.kind), what + ": first difference at " + locate(got, i, off));
    }
}

template <class T>
static bool arraysCloseT(const unsigned char* a, const unsigned char* b, size_t bytes, double tol, double& worst, double scaleFloor) {
    const size_t n = bytes / sizeof(T);
    double maxabs = scaleFloor;
    for (size_t i = 0; i < n; ++i) { T e; std::memcpy(&e, b + i * sizeof(T), sizeof e); if (e == e && std::fabs(double(e)) > maxabs) maxabs = std::fabs(double(e)); }
    bool ok = true;
    for (size_t i = 0; i < n; ++i) {
        T g, e;
        std::memcpy(&g, a + i * sizeof(T), sizeof g);
        std::memcpy(&e, b + i * sizeof(T), sizeof e);
        if (g != g || e != e) { if (std::memcmp(&g, &e, sizeof g) != 0) { ok = false; worst = 1e300; } continue; }
        const double err = std::fabs(double(g) - double(e));
        if (err > tol * maxabs + 1e-300) { ok = false; const double rel = maxabs > 0 ? err / maxabs : err; if (rel > worst) worst = rel; }
    }
    return ok;
}
static bool g_tolFloat = false;
static bool arraysClose(const unsigned char* a, const unsigned char* b, size_t bytes, double tol, double& worst, double scaleFloor = 0) {
    return g_tolFloat ? arraysCloseT<float>(a, b, bytes, tol, worst, scaleFloor) : arraysCloseT<double>(a, b, bytes, tol, worst, scaleFloor);
}
template <class T>
static double maxAbsT(const unsigned char* b, size_t bytes) {
    double m = 0;
    for (size_t i = 0; i < bytes / sizeof(T); ++i) { T e; std::memcpy(&e, b + i * sizeof(T), sizeof e); if (e == e && std::fabs(double(e)) < 1e300 && std::fabs(double(e)) > m) m = std::fabs(double(e)); }
    return m;
}
static double maxAbs(const unsigned char* b, size_t bytes) { return g_tolFloat ? maxAbsT<float>(b, bytes) : maxAbsT<double>(b, bytes); }

void compareViewsTol(Ctx& ctx, const TreeView& got, const TreeView& expect, double tol, const std::string& cls, const std::string& what) {
    g_tolFloat = ctx.isFloat;
    if (got.cells.size() != expect.cells.size() || got.leaves.size() != expect.leaves.size()) { ctx.addViolation(cls, "structure", what + ": different number of cells or leaves"); return; }
    for (size_t i = 0; i < got.cells.size(); ++i) {
        const CellRec& g = got.cells[i]; const CellRec& e = expect.cells[i];
        if (g.level != e.level || g.coord != e.coord || g.multBytes != e.multBytes || g.localBytes != e.localBytes) { ctx.addViolation(cls, "structure", what + ": cell lists differ"); return; }
        double worst = 0;
        if (g.multBytes && !arraysClose(g.mult, e.mult, g.multBytes, tol, worst)) ctx.addViolation(cls, "multipoles", what + ": multipole of cell L" + std::to_string(g.level) + " differs beyond rounding (relative error " + std::to_string(worst) + ")");
        if (g.localBytes && !arraysClose(g.local, e.local, g.localBytes, tol, worst)) ctx.addViolation(cls, "locals", what + ": local of cell L" + std::to_string(g.level) + " differs beyond rounding (relative error " + std::to_string(worst) + ")");
    }
    // the rounding error of an accumulated result scales with the magnitude of the accumulated terms, not with the (possibly
    // cancelling) result of one leaf: the scale is at least the largest value of the same result row anywhere in the tree
    std::vector<double> rowScale;
    for (const LeafRec& e : expect.leaves) {
        if (rowScale.size() < e.rhs.size()) rowScale.resize(e.rhs.size(), 0.0);
        for (size_t k = 0; k < e.rhs.size(); ++k) if (e.rhs[k]) rowScale[k] = std::max(rowScale[k], maxAbs(e.rhs[k], size_t(e.n) * (ctx.isFloat ? sizeof(float) : sizeof(double))));
    }
    for (size_t i = 0; i < got.leaves.size(); ++i) {
        const LeafRec& g = got.leaves[i]; const LeafRec& e = expect.leaves[i];
        if (g.n != e.n || g.coord != e.coord || g.rhs.size() != e.rhs.size()) { ctx.addViolation(cls, "structure", what + ": leaf lists differ"); return; }
        for (size_t k = 0; k < g.rhs.size(); ++k) {
            double worst = 0;
            if (g.rhs[k] && !arraysClose(g.rhs[k], e.rhs[k], size_t(g.n) * (ctx.isFloat ? sizeof(float) : sizeof(double)), tol, worst, rowScale[k])) { ctx.addViolation(cls, "particle-rhs", what + ": result row " + std::to_string(k) + " of a leaf differs beyond rounding (relative error " + std::to_string(worst) + ")"); break; }
        }
    }
}

void compareSnapshot(Ctx& ctx, const TreeView& v, const Snapshot& before, unsigned kindsMask, const std::string& cls, const std::string& what) {
    for (size_t i = 0; i < v.bufs.size() && i < before.data.size(); ++i) {
        const BufRec& g = v.bufs[i];
        if (!(kindsMask & (1u << g.kind))) continue;
        if (before.data[i].size() != g.bytes) { ctx.addViolation(cls, "structure", what + ": buffer size changed"); return; }
        if (std::memcmp(g.ptr, before.data[i].data(), g.bytes) == 0) continue;
        size_t off = 0;
        while (off < g.bytes && g.ptr[off] == before.data[i][off]) ++off;
        ctx.addViolation(cls, bufName(g.kind), what + ": first difference at " + locate(v, i, off));
    }
}

void checkWriteSet(Ctx& ctx, const TreeView& v, const Snapshot& before, int flags) {
    const int h = ctx.height;
    const long up = ctx.upper;
    const int minM2L = ctx.periodic ? 1 : 2;
    for (size_t i = 0; i < v.bufs.size() && i < before.data.size(); ++i) {
        const BufRec& b = v.bufs[i];
        if (before.data[i].size() != b.bytes || std::memcmp(b.ptr, before.data[i].data(), b.bytes) == 0) continue;
        bool allowed = false;
        const int L = b.level;
        switch (b.kind) {
            case BUF_MULT:
                allowed = b.tree == 0 && (((flags & F_P2M) && L == h - 1 && h > up) || ((flags & F_M2M) && L >= up && L <= h - 2));
                break;
            case BUF_LOCAL:
                allowed = b.tree == (ctx.tsm ? 1 : 0)
                          && (((flags & F_M2L) && L >= std::max<long>(up, minM2L) && L <= h - 1) || ((flags & F_L2L) && L >= up + 1 && L <= h - 1));
                break;
            case BUF_RHS:
                allowed = b.tree == (ctx.tsm ? 1 : 0) && (((flags & F_L2P) && h > up) || (flags & F_P2P));
                break;
            default: allowed = false;
        }
        if (allowed) continue;
        size_t off = 0;
        while (off < b.bytes && b.ptr[off] == before.data[i][off]) ++off;
        const bool symbolic = (b.kind == BUF_CELL_SYMB || b.kind == BUF_PART_SYMB);
        ctx.addViolation(symbolic ? "symbolic-changed" : "writeset", std::string(bufName(b.kind)) + (L >= 0 ? ".L" + std::to_string(L) : ""),
                         "execute(flags=" + std::to_string(flags) + ") changed " + locate(v, i, off) + ", outside the write set of these flags");
    }
}

void checkCallLog(Ctx& ctx, size_t firstCall, int flags) {
    static const int need[OP_NB] = {F_P2M, F_M2M, F_M2L, F_L2L, F_L2P, F_P2P, F_P2P, F_P2P};
    for (size_t i = firstCall; i < ctx.calls.size(); ++i) {
        const CallRec& c = ctx.calls[i];
        if (!(flags & need[c.op]))
            ctx.addViolation("calllog", std::string(opName(c.op)) + ".flag", std::string(opName(c.op)) + " was invoked by execute(flags=" + std::to_string(flags) + ")");
        const long lvl = c.trueLevel >= 0 ? c.trueLevel : -1;
        if ((c.op == OP_M2M || c.op == OP_M2L || c.op == OP_L2L) && lvl >= 0 && lvl < ctx.upper)
            ctx.addViolation("calllog", std::string(opName(c.op)) + ".above-upper", std::string(opName(c.op)) + " applied at level " + std::to_string(lvl) + " above the upper working level " + std::to_string(ctx.upper));
        if ((c.op == OP_P2M || c.op == OP_L2P) && ctx.height - 1 < ctx.upper)   // the leaf level itself lies above the upper working level
            ctx.addViolation("calllog", std::string(opName(c.op)) + ".above-upper", std::string(opName(c.op)) + " applied at the leaf level " + std::to_string(ctx.height - 1) + " above the upper working level " + std::to_string(ctx.upper));
        if (ctx.tsm && c.op == OP_P2PINNER) ctx.addViolation("calllog", "P2PInner.tsm", "P2PInner invoked in target/source mode");
    }
}

// ---------------------------------------------------------------------------------------------
namespace {
using U = unsigned long;
using V2 = std::array<U, 2>;
}

RefValues refEvaluate(const Ctx& ctx, const TreeView& v, const std::vector<int>& flagSeq) {
    RefValues r;
    const int h = ctx.height;
    const long up = ctx.upper;
    const U key = ctx.runKey ^ ctx.kernelParam;
    const int tgtTree = ctx.tsm ? 1 : 0;
    RefGrid grid;
    std::vector<Coord> l0, l1;
    std::map<std::pair<int, Coord>, const LeafRec*> leafOf;
    for (const LeafRec& l : v.leaves) {
        (l.tree == 0 ? l0 : l1).push_back(l.coord);
        leafOf[std::make_pair(l.tree, l.coord)] = &l;
    }
    grid.build(h, ctx.periodic, l0, ctx.tsm ? l1 : l0);
    auto wOf = [&](int tree, long idx) -> U { return U((long long)ctx.inputs[tree][size_t(idx)][3]); };
    // zero state
    for (int t = 0; t < 2; ++t) for (int l = 0; l < h; ++l) for (const Coord& c : grid.occ[t][size_t(l)]) {
        if (t == 0) r.mult[std::make_tuple(0, l, c)] = V2{{0, 0}};
        if (t == tgtTree) r.local[std::make_tuple(tgtTree, l, c)] = V2{{0, 0}};
    }
    for (const LeafRec& l : v.leaves) if (l.tree == tgtTree) for (long i = 0; i < l.n; ++i) r.rhs[std::make_pair(l.tree, l.indexes[i])] = V2{{0, 0}};

    for (int flags : flagSeq) {
        if ((flags & F_P2M) && h > up) {
            for (const LeafRec& l : v.leaves) if (l.tree == 0) {
                V2& m = r.mult[std::make_tuple(0, h - 1, l.coord)];
                for (long i = 0; i < l.n; ++i) {
                    const U w = wOf(0, l.indexes[i]);
                    m[0] += w;
                    m[1] += w * wkHash(key, WK_IDX, U(l.indexes[i]), 0);
                }
                r.counts[0] += 1;
            }
        }
        if (flags & F_M2M) {
            for (long l = h - 2; l >= up; --l) for (const Coord& p : grid.occ[0][size_t(l)]) {
                V2 add{{0, 0}};
                for (long o = 0; o < 8; ++o) {
                    const Coord oct = RefGrid::decodeChild(o);
                    const Coord ch{p[0] * 2 + oct[0], p[1] * 2 + oct[1], p[2] * 2 + oct[2]};
                    if (!grid.occ[0][size_t(l + 1)].count(ch)) continue;
                    const V2& c = r.mult[std::make_tuple(0, int(l + 1), ch)];
                    add[0] += c[0];
                    add[1] += c[1] * wkHash(key, WK_M2M_A, U(l), U(o)) + c[0] * wkHash(key, WK_M2M_B, U(l), U(o));
                    r.counts[1] += 1;
                }
                V2& m = r.mult[std::make_tuple(0, int(l), p)];
                m[0] += add[0]; m[1] += add[1];
            }
        }
        if (flags & F_M2L) {
            for (long l = up; l <= h - 1; ++l) for (const Coord& t : grid.occ[tgtTree][size_t(l)]) {
                V2 add{{0, 0}};
                grid.forInteractionList(t, int(l), [&](const Coord& off, const Coord& s) {
                    if (!grid.occ[0][size_t(l)].count(s)) return;
                    const V2& m = r.mult[std::make_tuple(0, int(l), s)];
                    const U code = U(RefGrid::codeM2L(off));
                    add[0] += m[0];
                    add[1] += m[1] * wkHash(key, WK_M2L_A, U(l), code) + m[0] * wkHash(key, WK_M2L_B, U(l), code);
                    r.counts[2] += 1;
                });
                V2& loc = r.local[std::make_tuple(tgtTree, int(l), t)];
                loc[0] += add[0]; loc[1] += add[1];
            }
        }
        if (flags & F_L2L) {
            for (long l = up; l <= h - 2; ++l) for (const Coord& p : grid.occ[tgtTree][size_t(l)]) {
                const V2 pl = r.local[std::make_tuple(tgtTree, int(l), p)];
                for (long o = 0; o < 8; ++o) {
                    const Coord oct = RefGrid::decodeChild(o);
                    const Coord ch{p[0] * 2 + oct[0], p[1] * 2 + oct[1], p[2] * 2 + oct[2]};
                    if (!grid.occ[tgtTree][size_t(l + 1)].count(ch)) continue;
                    V2& c = r.local[std::make_tuple(tgtTree, int(l + 1), ch)];
                    c[0] += pl[0];
                    c[1] += pl[1] * wkHash(key, WK_L2L_A, U(l), U(o)) + pl[0] * wkHash(key, WK_L2L_B, U(l), U(o));
                    r.counts[3] += 1;
                }
            }
        }
        if ((flags & F_L2P) && h > up) {
            for (const LeafRec& l : v.leaves) if (l.tree == tgtTree) {
                const V2 loc = r.local[std::make_tuple(tgtTree, h - 1, l.coord)];
                for (long i = 0; i < l.n; ++i) {
                    V2& x = r.rhs[std::make_pair(tgtTree, l.indexes[i])];
                    x[0] += loc[0];
                    x[1] += loc[1] * wkHash(key, WK_L2P_A, U(l.indexes[i]), 0) + loc[0] * wkHash(key, WK_L2P_B, U(l.indexes[i]), 0);
                }
                r.counts[4] += 1;
            }
        }
        if ((flags & F_P2P) && h >= 1) {
            std::map<std::pair<int, long>, V2> add;
            for (const LeafRec& t : v.leaves) if (t.tree == tgtTree) {
                auto contribution = [&](const LeafRec& s, long code, bool excludeSelf) {
                    U s0 = 0, s1 = 0;
                    for (long j = 0; j < s.n; ++j) { const U w = wOf(0, s.indexes[j]); s0 += w; s1 += w * wkHash(key, WK_IDX, U(s.indexes[j]), 0); }
                    const U a = wkHash(key, WK_P2P_A, U(code), 0);
                    for (long i = 0; i < t.n; ++i) {
                        U e0 = 0, e1 = 0;
                        if (excludeSelf) { e0 = wOf(0, t.indexes[i]); e1 = e0 * wkHash(key, WK_IDX, U(t.indexes[i]), 0); }
                        V2& x = add[std::make_pair(tgtTree, t.indexes[i])];
                        x[0] += s0 - e0;
                        x[1] += (s1 - e1) * a * wkHash(key, WK_TGT, U(t.indexes[i]), 0);
                    }
                };
                grid.forNeighbours(t.coord, h - 1, [&](const Coord& off, const Coord& sc) {
                    auto it = leafOf.find(std::make_pair(0, sc));
                    if (it == leafOf.end()) return;
                    const long code = RefGrid::codeP2P(off);
                    contribution(*it->second, code, false);
                    if (ctx.tsm || code > 13) r.counts[5] += it->second->n * t.n;
                });
                if (ctx.tsm) {
                    auto it = leafOf.find(std::make_pair(0, t.coord));
                    if (it != leafOf.end()) { contribution(*it->second, 13, false); r.counts[5] += it->second->n * t.n; }
                } else {
                    contribution(t, 13, true);
                    r.counts[6] += t.n * t.n - t.n;
                }
            }
            for (auto& kv : add) { V2& x = r.rhs[kv.first]; x[0] += kv.second[0]; x[1] += kv.second[1]; }
        }
    }
    return r;
}

void compareWithRef(Ctx& ctx, const TreeView& v, const RefValues& ref, const std::string& cls, bool cells, bool results) {
    auto cs = [](const Coord& c) { return "(" + std::to_string(c[0]) + "," + std::to_string(c[1]) + "," + std::to_string(c[2]) + ")"; };
    if (cells) {
        for (const CellRec& c : v.cells) {
            if (c.multBytes == sizeof(V2)) {
                auto it = ref.mult.find(std::make_tuple(c.tree, c.level, c.coord));
                V2 got; std::memcpy(&got, c.mult, sizeof got);
                if (it == ref.mult.end()) ctx.addViolation(cls, "multipole.unexpected-cell", "cell L" + std::to_string(c.level) + " " + cs(c.coord) + " is not an occupied cell of the reference grid");
                else if (got != it->second) ctx.addViolation(cls, std::string("multipole.") + (got[0] != it->second[0] ? "sum" : "mixed"), "multipole of cell L" + std::to_string(c.level) + " " + cs(c.coord) + " differs from the reference evaluation");
            }
            if (c.localBytes == sizeof(V2)) {
                auto it = ref.local.find(std::make_tuple(c.tree, c.level, c.coord));
                V2 got; std::memcpy(&got, c.local, sizeof got);
                if (it == ref.local.end()) ctx.addViolation(cls, "local.unexpected-cell", "cell L" + std::to_string(c.level) + " " + cs(c.coord) + " is not an occupied cell of the reference grid");
                else if (got != it->second) ctx.addViolation(cls, std::string("local.") + (got[0] != it->second[0] ? "sum" : "mixed"), "local of cell L" + std::to_string(c.level) + " " + cs(c.coord) + " differs from the reference evaluation");
            }
        }
    }
    if (results) {
        for (const LeafRec& l : v.leaves) {
            if (l.rhs.size() != 2 || !l.rhs[0]) continue;
            for (long i = 0; i < l.n; ++i) {
                auto it = ref.rhs.find(std::make_pair(l.tree, l.indexes[i]));
                if (it == ref.rhs.end()) continue;
                U g0, g1;
                std::memcpy(&g0, l.rhs[0] + size_t(i) * sizeof(U), sizeof(U));
                std::memcpy(&g1, l.rhs[1] + size_t(i) * sizeof(U), sizeof(U));
                if (g0 != it->second[0]) { ctx.addViolation(cls, "result.sum", "particle " + std::to_string(l.indexes[i]) + " of tree " + std::to_string(l.tree) + ": sum of received weights differs from the reference (each source exactly once)"); break; }
                if (g1 != it->second[1]) { ctx.addViolation(cls, "result.mixed", "particle " + std::to_string(l.indexes[i]) + " of tree " + std::to_string(l.tree) + ": position/level-sensitive component differs from the reference"); break; }
            }
        }
    }
}

}  // namespace tbfsim
