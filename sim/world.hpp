// World: one tree + one executor of the real library, behind a type-erased interface so that the property
// recipes are ordinary code.  Each translation unit w_*.cpp instantiates the worlds of one configuration
// family and registers factories.
#ifndef TBFSIM_WORLD_HPP
#define TBFSIM_WORLD_HPP

#include "probe.hpp"
#include "scenario.hpp"

#include <functional>
#include <map>
#include <memory>
#include <string>

namespace tbfsim {

struct IWorld {
    virtual ~IWorld() {}
    virtual void buildTree() = 0;               // from g_ctx->inputs and the scenario parameters
    virtual void destroyTree() = 0;
    virtual void makeAlgo() = 0;                // constructs the executor (reads the thread count at this moment)
    virtual void destroyAlgo() = 0;
    virtual void execute(int flags) = 0;
    virtual void topExecute(int flags) = 0;     // periodic top-tree algorithm (no-op when there is none)
    virtual bool rebuild() = 0;                 // false: rebuild() does not instantiate for this configuration
    virtual TreeView& view() = 0;               // rebuilt by buildTree() and rebuild()
    virtual void kernelObjects(std::vector<const void*>& out) = 0;
    virtual bool counters(std::vector<std::array<long, 7>>& perKernel, std::array<long, 7>& merged, uint64_t mergeSeed) = 0;
    virtual bool topCounters(std::array<long, 7>& counts) = 0;   // counters of the periodic top-tree algorithm's kernel (false: none)
    virtual bool isTaskBased() const = 0;
    virtual long effectiveBlockSize() = 0;      // the block size the tree actually uses (the automatic estimate is made once, at construction)
    virtual long query(uint64_t seed) = 0;     // lookups through the tree's public find functions; returns the number of wrong answers
};

using WorldFactory = std::function<std::unique_ptr<IWorld>(const Scenario&)>;
std::map<std::string, WorldFactory>& worldRegistry();     // key: ordering/kernel/executor
struct WorldRegistrar {
    WorldRegistrar(const std::string& key, WorldFactory f) { worldRegistry()[key] = std::move(f); }
};
inline std::string worldKey(const Scenario& s) { return s.ordering + "/" + s.kernel + "/" + s.executor; }

}  // namespace tbfsim
#endif
