// Worlds: Morton ordering, WeightKernel / TbfTestKernel / counters, sequential + OpenMP executors (single and TSM).
#include "world_impl.hpp"
#include "algorithms/openmp/tbfopenmpalgorithm.hpp"
#include "algorithms/openmp/tbfopenmpalgorithmtsm.hpp"
#include "kernels/testkernel/tbftestkernel.hpp"
#include "kernels/counterkernels/tbfinteractioncounter.hpp"

namespace tbfsim {

template <class Cfg> struct AlgoSelect<Cfg, EX_OMP> { using type = TbfOpenmpAlgorithm<typename Cfg::Real, Probe<typename Cfg::Inner>, typename Cfg::Space>; };
template <class Cfg> struct AlgoSelect<Cfg, EX_OMP_TSM> { using type = TbfOpenmpAlgorithmTsm<typename Cfg::Real, Probe<typename Cfg::Inner>, typename Cfg::Space>; };

struct CfgBaseMorton : CfgCommon {
    using Real = double;
    using Space = TbfDefaultSpaceIndexType<double>;
    static constexpr long NbData = 4;
    static constexpr bool periodic = false;
    static constexpr bool canRebuild = true;
    static constexpr bool hasCounters = false;
};
struct CfgWeight : CfgBaseMorton {
    using Inner = WeightKernel<Real, Space>;
    using Rhs = unsigned long;
    static constexpr long NbRhs = 2;
    using Mult = std::array<unsigned long, 2>;
    using Loc = std::array<unsigned long, 2>;
};
struct CfgCounterWeight : CfgWeight {
    using Inner = TbfInteractionCounter<Probe<WeightKernel<Real, Space>, true>>;
    static constexpr bool hasCounters = true;
};
struct CfgTest : CfgBaseMorton {
    using Inner = TbfTestKernel<Real, Space>;
    using Rhs = long;
    static constexpr long NbRhs = 1;
    using Mult = std::array<long, 1>;
    using Loc = std::array<long, 1>;
};
struct CfgCounterTest : CfgTest {
    using Inner = TbfInteractionCounter<Probe<TbfTestKernel<Real, Space>, true>>;
    static constexpr bool hasCounters = true;
};

struct CfgWeightFloat : CfgCommon {
    using Real = float;
    using Space = TbfDefaultSpaceIndexType<float>;
    static constexpr long NbData = 4;
    static constexpr bool periodic = false;
    static constexpr bool canRebuild = true;
    static constexpr bool hasCounters = false;
    using Inner = WeightKernel<Real, Space>;
    using Rhs = unsigned long;
    static constexpr long NbRhs = 2;
    using Mult = std::array<unsigned long, 2>;
    using Loc = std::array<unsigned long, 2>;
};

struct CfgShapeF35 : CfgWeightFloat {
    static constexpr long NbData = 3;
    using Inner = WeightKernel<Real, Space, true>;
    static constexpr long NbRhs = 5;
};

// other shapes of the particle containers: fewer data values than result values, and extra data values
struct CfgShape35 : CfgBaseMorton {
    static constexpr long NbData = 3;
    using Inner = WeightKernel<Real, Space, true>;
    using Rhs = unsigned long;
    static constexpr long NbRhs = 5;
    using Mult = std::array<unsigned long, 2>;
    using Loc = std::array<unsigned long, 2>;
};
struct CfgShape62 : CfgBaseMorton {
    static constexpr long NbData = 6;
    using Inner = WeightKernel<Real, Space>;
    using Rhs = unsigned long;
    static constexpr long NbRhs = 2;
    using Mult = std::array<unsigned long, 2>;
    using Loc = std::array<unsigned long, 2>;
};

#define REG(key, Cfg, Ex) static WorldRegistrar reg_##Cfg##_##Ex(key, [](const Scenario& s) { return std::unique_ptr<IWorld>(new World<Cfg, Ex>(s)); })
REG("morton/weight/seq", CfgWeight, EX_SEQ);
REG("morton/weight/omp", CfgWeight, EX_OMP);
REG("morton/weight/seqtsm", CfgWeight, EX_SEQ_TSM);
REG("morton/weight/omptsm", CfgWeight, EX_OMP_TSM);
REG("morton/weight_float/seq", CfgWeightFloat, EX_SEQ);
REG("morton/weight_float/omp", CfgWeightFloat, EX_OMP);
REG("morton/weight_float/seqtsm", CfgWeightFloat, EX_SEQ_TSM);
REG("morton/weight_float/omptsm", CfgWeightFloat, EX_OMP_TSM);
REG("morton/weight_f35/seq", CfgShapeF35, EX_SEQ);
REG("morton/weight_f35/omp", CfgShapeF35, EX_OMP);
REG("morton/weight_f35/seqtsm", CfgShapeF35, EX_SEQ_TSM);
REG("morton/weight_f35/omptsm", CfgShapeF35, EX_OMP_TSM);
REG("morton/weight_s35/seq", CfgShape35, EX_SEQ);
REG("morton/weight_s35/omp", CfgShape35, EX_OMP);
REG("morton/weight_s35/seqtsm", CfgShape35, EX_SEQ_TSM);
REG("morton/weight_s35/omptsm", CfgShape35, EX_OMP_TSM);
REG("morton/weight_s62/seq", CfgShape62, EX_SEQ);
REG("morton/weight_s62/omp", CfgShape62, EX_OMP);
REG("morton/weight_s62/seqtsm", CfgShape62, EX_SEQ_TSM);
REG("morton/weight_s62/omptsm", CfgShape62, EX_OMP_TSM);
REG("morton/test/seq", CfgTest, EX_SEQ);
REG("morton/test/omp", CfgTest, EX_OMP);
REG("morton/test/seqtsm", CfgTest, EX_SEQ_TSM);
REG("morton/test/omptsm", CfgTest, EX_OMP_TSM);
REG("morton/counter_weight/seq", CfgCounterWeight, EX_SEQ);
REG("morton/counter_weight/omp", CfgCounterWeight, EX_OMP);
REG("morton/counter_test/seq", CfgCounterTest, EX_SEQ);
REG("morton/counter_test/omp", CfgCounterTest, EX_OMP);

}  // namespace tbfsim
