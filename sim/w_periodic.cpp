// Worlds: periodic Morton ordering (+ periodic top-tree algorithm), WeightKernel, sequential + OpenMP executors.
#include "world_impl.hpp"
#include "algorithms/openmp/tbfopenmpalgorithm.hpp"
#include "algorithms/openmp/tbfopenmpalgorithmtsm.hpp"
#include "algorithms/periodic/tbfalgorithmperiodictoptree.hpp"
#include "algorithms/periodic/tbfalgorithmperiodictoptreetsm.hpp"
#include "kernels/counterkernels/tbfinteractioncounter.hpp"

namespace tbfsim {

template <class Cfg> struct AlgoSelect<Cfg, EX_OMP> { using type = TbfOpenmpAlgorithm<typename Cfg::Real, Probe<typename Cfg::Inner>, typename Cfg::Space>; };
template <class Cfg> struct AlgoSelect<Cfg, EX_OMP_TSM> { using type = TbfOpenmpAlgorithmTsm<typename Cfg::Real, Probe<typename Cfg::Inner>, typename Cfg::Space>; };

struct CfgWeightPeriodic : CfgCommon {
    using Real = double;
    using Space = TbfDefaultSpaceIndexTypePeriodic<double>;
    static constexpr long NbData = 4;
    static constexpr bool periodic = true;
    static constexpr bool canRebuild = true;
    static constexpr bool hasCounters = false;
    using Inner = WeightKernel<Real, Space>;
    using Rhs = unsigned long;
    static constexpr long NbRhs = 2;
    using Mult = std::array<unsigned long, 2>;
    using Loc = std::array<unsigned long, 2>;
    template <class PK> using TopAlgo = TbfAlgorithmPeriodicTopTree<Real, PK, Mult, Loc, Space>;
    template <class PK> using TopAlgoTsm = TbfAlgorithmPeriodicTopTreeTsm<Real, PK, Mult, Loc, Space>;
};

// the interaction counter around the kernel, for the regular executor and for the top-tree algorithm
struct CfgCounterWeightPeriodic : CfgWeightPeriodic {
    using Inner = TbfInteractionCounter<Probe<WeightKernel<Real, Space>, true>>;
    static constexpr bool hasCounters = true;
};

#define REG(key, Cfg, Ex) static WorldRegistrar reg_##Cfg##_##Ex(key, [](const Scenario& s) { return std::unique_ptr<IWorld>(new World<Cfg, Ex>(s)); })
REG("periodic/weight/seq", CfgWeightPeriodic, EX_SEQ);
REG("periodic/weight/omp", CfgWeightPeriodic, EX_OMP);
REG("periodic/counter_weight/seq", CfgCounterWeightPeriodic, EX_SEQ);
REG("periodic/counter_weight/omp", CfgCounterWeightPeriodic, EX_OMP);
REG("periodic/weight/seqtsm", CfgWeightPeriodic, EX_SEQ_TSM);
REG("periodic/weight/omptsm", CfgWeightPeriodic, EX_OMP_TSM);

}  // namespace tbfsim
