// WeightKernel (DESIGN.md 4.3).  Needs the tbfmm headers: included from world_impl.hpp only.
#ifndef TBFSIM_WEIGHTKERNEL_HPP
#define TBFSIM_WEIGHTKERNEL_HPP
#include "probe.hpp"
namespace tbfsim {
// ---------------------------------------------------------------------------------------------
// WeightKernel: exactly additive over Z/2^64.  Component 0 = plain sum of weights, component 1 mixes in
// H(operator, level, position code).  Each callback is "read inputs and the current output into a per-object
// scratch -> yield -> write output = saved output + contribution", so an unordered writer of the inputs or of
// the output, or a second worker using the same kernel object meanwhile, changes the result by value.
// FromIndex: the weight of a particle is derived from its original index (trees with fewer than four data values).
// Result rows beyond the second (trees with more than two result values) receive odd multiples of the second row's increment.
template <class RealType_T, class SpaceIndexType_T, bool FromIndex = false>
class WeightKernel {
public:
    using RealType = RealType_T;
    using SpaceIndexType = SpaceIndexType_T;
    using SpacialConfiguration = TbfSpacialConfiguration<RealType, SpaceIndexType::Dim>;
    using U = unsigned long;

private:
    std::vector<U> scratch;
    // per-object state that enters the arithmetic (a "user parameter" of the kernel): 0 when the kernel is built from a configuration
    // alone; the harness sets it on the kernel object it hands to the executor constructors that take a kernel, so that worker
    // copies made by the library must really be copies of THAT object
    U param = 0;
    U key() const { return g_ctx->runKey ^ param; }
    static U wOf(RealType v) { return U((long long)(v)); }
    template <class Data> static U weightOf(const Data& data, const long int idx[], long i) {
        if constexpr (FromIndex) { (void)data; return wkWeight(g_ctx->runKey, 0, idx[i]); }
        else { (void)idx; return wOf(data[3][i]); }
    }
    template <class Rhs> static void extraRows(Rhs& rhs, long i, U old1) {
        const U delta = rhs[1][i] - old1;
        for (size_t k = 2; k < rhs.size(); ++k) rhs[k][i] += delta * U(2 * k + 1);
    }
    void mid() { if (g_ctx->yields) yieldPoint(); }

public:
    explicit WeightKernel(const SpacialConfiguration&) {}
    void setParam(U p) { param = p; }
    WeightKernel(const WeightKernel&) = default;
    WeightKernel& operator=(const WeightKernel&) = default;

    template <class CellSymbolicData, class ParticlesClass, class LeafClass>
    void P2M(const CellSymbolicData&, const long int idx[], const ParticlesClass& data, const long int n, LeafClass& leaf) {
        NoCount noCount;
        scratch.assign(4, 0);
        for (long i = 0; i < n; ++i) {
            const U w = weightOf(data, idx, i);
            scratch[0] += w;
            scratch[1] += w * wkHash(key(), WK_IDX, U(idx[i]), 0);
        }
        scratch[2] = leaf[0]; scratch[3] = leaf[1];
        mid();
        leaf[0] = scratch[2] + scratch[0];
        leaf[1] = scratch[3] + scratch[1];
    }

    template <class CellSymbolicData, class CellClassContainer, class CellClass>
    void M2M(const CellSymbolicData&, const long int level, const CellClassContainer& lower, CellClass& upper,
             const long int pos[], const long int n) {
        NoCount noCount;
        scratch.assign(4, 0);
        for (long k = 0; k < n; ++k) {
            const auto& ch = lower[size_t(k)].get();
            scratch[0] += ch[0];
            scratch[1] += ch[1] * wkHash(key(), WK_M2M_A, U(level), U(pos[k])) + ch[0] * wkHash(key(), WK_M2M_B, U(level), U(pos[k]));
        }
        scratch[2] = upper[0]; scratch[3] = upper[1];
        mid();
        upper[0] = scratch[2] + scratch[0];
        upper[1] = scratch[3] + scratch[1];
    }

    template <class CellSymbolicData, class CellClassContainer, class CellClass>
    void M2L(const CellSymbolicData&, const long int level, const CellClassContainer& srcs, const long int pos[], const long int n,
             CellClass& target) {
        NoCount noCount;
        scratch.assign(4, 0);
        for (long k = 0; k < n; ++k) {
            const auto& s = srcs[size_t(k)].get();
            scratch[0] += s[0];
            scratch[1] += s[1] * wkHash(key(), WK_M2L_A, U(level), U(pos[k])) + s[0] * wkHash(key(), WK_M2L_B, U(level), U(pos[k]));
        }
        scratch[2] = target[0]; scratch[3] = target[1];
        mid();
        target[0] = scratch[2] + scratch[0];
        target[1] = scratch[3] + scratch[1];
    }

    template <class CellSymbolicData, class CellClass, class CellClassContainer>
    void L2L(const CellSymbolicData&, const long int level, const CellClass& upper, CellClassContainer& lower,
             const long int pos[], const long int n) {
        NoCount noCount;
        scratch.assign(size_t(2 + 2 * n), 0);
        scratch[0] = upper[0]; scratch[1] = upper[1];
        for (long k = 0; k < n; ++k) { scratch[size_t(2 + 2 * k)] = lower[size_t(k)].get()[0]; scratch[size_t(3 + 2 * k)] = lower[size_t(k)].get()[1]; }
        mid();
        for (long k = 0; k < n; ++k) {
            auto& ch = lower[size_t(k)].get();
            ch[0] = scratch[size_t(2 + 2 * k)] + scratch[0];
            ch[1] = scratch[size_t(3 + 2 * k)] + scratch[1] * wkHash(key(), WK_L2L_A, U(level), U(pos[k]))
                    + scratch[0] * wkHash(key(), WK_L2L_B, U(level), U(pos[k]));
        }
    }

    template <class CellSymbolicData, class LeafClass, class ParticlesClassValues, class ParticlesClassRhs>
    void L2P(const CellSymbolicData&, const LeafClass& leaf, const long int idx[], const ParticlesClassValues&,
             ParticlesClassRhs& rhs, const long int n) {
        NoCount noCount;
        scratch.assign(size_t(2 + 2 * n), 0);
        scratch[0] = leaf[0]; scratch[1] = leaf[1];
        for (long i = 0; i < n; ++i) { scratch[size_t(2 + 2 * i)] = rhs[0][i]; scratch[size_t(3 + 2 * i)] = rhs[1][i]; }
        mid();
        for (long i = 0; i < n; ++i) {
            rhs[0][i] = scratch[size_t(2 + 2 * i)] + scratch[0];
            rhs[1][i] = scratch[size_t(3 + 2 * i)] + scratch[1] * wkHash(key(), WK_L2P_A, U(idx[i]), 0)
                        + scratch[0] * wkHash(key(), WK_L2P_B, U(idx[i]), 0);
            extraRows(rhs, i, scratch[size_t(3 + 2 * i)]);
        }
    }

private:
    // contribution of a source leaf to a target leaf with relative position code `code` (source relative to target)
    template <class DataS, class RhsT>
    void half(const long int srcIdx[], const DataS& srcData, long nSrc, const long int tgtIdx[], RhsT& tgtRhs, long nTgt, long code,
              size_t base) {
        U s0 = 0, s1 = 0;
        for (long j = 0; j < nSrc; ++j) {
            const U w = weightOf(srcData, srcIdx, j);
            s0 += w;
            s1 += w * wkHash(key(), WK_IDX, U(srcIdx[j]), 0);
        }
        (void)tgtIdx; (void)code;
        scratch[base] = s0; scratch[base + 1] = s1;
        for (long i = 0; i < nTgt; ++i) { scratch[base + 2 + size_t(2 * i)] = tgtRhs[0][i]; scratch[base + 3 + size_t(2 * i)] = tgtRhs[1][i]; }
    }
    template <class RhsT>
    void halfWrite(const long int tgtIdx[], RhsT& tgtRhs, long nTgt, long code, size_t base) {
        const U a = wkHash(key(), WK_P2P_A, U(code), 0);
        for (long i = 0; i < nTgt; ++i) {
            tgtRhs[0][i] = scratch[base + 2 + size_t(2 * i)] + scratch[base];
            tgtRhs[1][i] = scratch[base + 3 + size_t(2 * i)] + scratch[base + 1] * a * wkHash(key(), WK_TGT, U(tgtIdx[i]), 0);
            extraRows(tgtRhs, i, scratch[base + 3 + size_t(2 * i)]);
        }
    }

public:
    template <class LeafSymbolicData, class ParticlesClassValues, class ParticlesClassRhs>
    void P2P(const LeafSymbolicData&, const long int srcIdx[], const ParticlesClassValues& srcData, ParticlesClassRhs& srcRhs,
             const long int nSrc, const LeafSymbolicData&, const long int tgtIdx[], const ParticlesClassValues& tgtData,
             ParticlesClassRhs& tgtRhs, const long int nTgt, const long code) {
        const size_t b2 = size_t(2 + 2 * nTgt);
        NoCount noCount;
        scratch.assign(b2 + size_t(2 + 2 * nSrc), 0);
        half(srcIdx, srcData, nSrc, tgtIdx, tgtRhs, nTgt, code, 0);
        half(tgtIdx, tgtData, nTgt, srcIdx, srcRhs, nSrc, 26 - code, b2);
        mid();
        halfWrite(tgtIdx, tgtRhs, nTgt, code, 0);
        if (static_cast<const void*>(srcRhs[0]) == static_cast<const void*>(tgtRhs[0])) {
            // periodic images: a leaf can be its own neighbour; both halves then accumulate into the same rows,
            // so the second half must be added to what the first half just wrote
            for (long j = 0; j < nSrc; ++j) { scratch[b2 + 2 + size_t(2 * j)] = srcRhs[0][j]; scratch[b2 + 3 + size_t(2 * j)] = srcRhs[1][j]; }
        }
        halfWrite(srcIdx, srcRhs, nSrc, 26 - code, b2);
    }

    template <class LeafSymbolicDataSource, class ParticlesClassValuesSource, class LeafSymbolicDataTarget,
              class ParticlesClassValuesTarget, class ParticlesClassRhs>
    void P2PTsm(const LeafSymbolicDataSource&, const long int srcIdx[], const ParticlesClassValuesSource& srcData, const long int nSrc,
                const LeafSymbolicDataTarget&, const long int tgtIdx[], const ParticlesClassValuesTarget&, ParticlesClassRhs& tgtRhs,
                const long int nTgt, const long code) {
        NoCount noCount;
        scratch.assign(size_t(2 + 2 * nTgt), 0);
        half(srcIdx, srcData, nSrc, tgtIdx, tgtRhs, nTgt, code, 0);
        mid();
        halfWrite(tgtIdx, tgtRhs, nTgt, code, 0);
    }

    template <class LeafSymbolicData, class ParticlesClassValues, class ParticlesClassRhs>
    void P2PInner(const LeafSymbolicData&, const long int idx[], const ParticlesClassValues& data, ParticlesClassRhs& rhs, const long int n) {
        NoCount noCount;
        scratch.assign(size_t(2 + 4 * n), 0);
        U s0 = 0, s1 = 0;
        for (long j = 0; j < n; ++j) {
            const U w = weightOf(data, idx, j);
            const U wi = w * wkHash(key(), WK_IDX, U(idx[j]), 0);
            s0 += w; s1 += wi;
            scratch[size_t(2 + 4 * j)] = w; scratch[size_t(3 + 4 * j)] = wi;
            scratch[size_t(4 + 4 * j)] = rhs[0][j]; scratch[size_t(5 + 4 * j)] = rhs[1][j];
        }
        scratch[0] = s0; scratch[1] = s1;
        mid();
        const U a = wkHash(key(), WK_P2P_A, 13, 0);
        for (long i = 0; i < n; ++i) {
            rhs[0][i] = scratch[size_t(4 + 4 * i)] + (scratch[0] - scratch[size_t(2 + 4 * i)]);
            rhs[1][i] = scratch[size_t(5 + 4 * i)] + (scratch[1] - scratch[size_t(3 + 4 * i)]) * a * wkHash(key(), WK_TGT, U(idx[i]), 0);
            extraRows(rhs, i, scratch[size_t(5 + 4 * i)]);
        }
    }
};

}  // namespace tbfsim
#endif
