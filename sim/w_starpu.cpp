// Worlds: the StarPU executors (real tbfmm code, CPU codelets) on the stub runtime sim/stubs/starpu/starpu.h.
#include "world_impl.hpp"
#include "algorithms/smstarpu/tbfsmstarpualgorithm.hpp"
#include "algorithms/smstarpu/tbfsmstarpualgorithmtsm.hpp"

namespace tbfsim {

template <class Cfg> struct AlgoSelect<Cfg, EX_STARPU> { using type = TbfSmStarpuAlgorithm<typename Cfg::Real, Probe<typename Cfg::Inner>, typename Cfg::Space>; };
template <class Cfg> struct AlgoSelect<Cfg, EX_STARPU_TSM> { using type = TbfSmStarpuAlgorithmTsm<typename Cfg::Real, Probe<typename Cfg::Inner>, typename Cfg::Space>; };

struct CfgWeightStarpu : CfgCommon {
    using Real = double;
    using Space = TbfDefaultSpaceIndexType<double>;
    static constexpr long NbData = 4;
    static constexpr bool periodic = false;
    static constexpr bool canRebuild = true;
    static constexpr bool hasCounters = false;
    using Inner = WeightKernel<Real, Space>;
    using Rhs = unsigned long;
    static constexpr long NbRhs = 2;
    using Mult = std::array<unsigned long, 2>;
    using Loc = std::array<unsigned long, 2>;
};

#define REG(key, Cfg, Ex) static WorldRegistrar reg_##Cfg##_##Ex(key, [](const Scenario& s) { return std::unique_ptr<IWorld>(new World<Cfg, Ex>(s)); })
REG("morton/weight/starpu", CfgWeightStarpu, EX_STARPU);
REG("morton/weight/starputsm", CfgWeightStarpu, EX_STARPU_TSM);

}  // namespace tbfsim
