// Stub of the part of StarPU's C API that tbfmm's StarPU executors use (CPU codelets only), on top of the tbfsim
// scheduler.  StarPU is not installed in this sandbox.  Semantics encoded here, from StarPU's documentation:
//  - starpu_insert_task() submits a task whose data accesses follow sequential consistency per data handle:
//    STARPU_R = concurrent readers, STARPU_W / STARPU_RW = exclusive, STARPU_RW|STARPU_COMMUTE = any order but mutually
//    exclusive; STARPU_VALUE arguments are copied at submission and read back with starpu_codelet_unpack_args();
//  - CPU workers have ids 0..N-1 (starpu_worker_get_id()); the submitting thread is not a worker (id -1);
//  - nothing runs while the runtime is paused; starpu_task_wait_for_all() returns when every submitted task is done;
//  - CPU workers share STARPU_MAIN_RAM: a variable handle's buffer is the registered memory itself (no relocation);
//  - priorities are hints.
#ifndef TBFSIM_STUB_STARPU_H
#define TBFSIM_STUB_STARPU_H

#include "core.hpp"

#include <cstdarg>
#include <cstdint>
#include <cstdlib>
#include <cstring>
#include <functional>
#include <pthread.h>
#include <vector>

enum starpu_data_access_mode {
    STARPU_NONE = 0, STARPU_R = (1 << 0), STARPU_W = (1 << 1), STARPU_RW = (STARPU_R | STARPU_W), STARPU_SCRATCH = (1 << 2),
    STARPU_REDUX = (1 << 3), STARPU_COMMUTE = (1 << 4), STARPU_SSEND = (1 << 5), STARPU_LOCALITY = (1 << 6), STARPU_ACCESS_MODE_MAX = (1 << 7)
};

#define STARPU_MODE_SHIFT 17
#define STARPU_VALUE (1 << STARPU_MODE_SHIFT)
#define STARPU_CALLBACK (2 << STARPU_MODE_SHIFT)
#define STARPU_PRIORITY (5 << STARPU_MODE_SHIFT)
#define STARPU_NAME (17 << STARPU_MODE_SHIFT)

#define STARPU_CPU (1U << 1)
#define STARPU_CUDA (1U << 3)
#define STARPU_MAIN_RAM 0
#define STARPU_NMAXBUFS 8
#define STARPU_MAXIMPLEMENTATIONS 4

enum starpu_worker_archtype { STARPU_CPU_WORKER = 0, STARPU_CUDA_WORKER = 1, STARPU_ANY_WORKER = 255 };
enum starpu_perfmodel_type { STARPU_PERFMODEL_INVALID = 0, STARPU_PER_ARCH, STARPU_COMMON, STARPU_HISTORY_BASED, STARPU_REGRESSION_BASED };

struct starpu_perfmodel {
    starpu_perfmodel_type type;
    const char* symbol;
    void* reserved[8];
};

typedef void (*starpu_cpu_func_t)(void**, void*);

struct starpu_codelet {
    uint32_t where;
    starpu_cpu_func_t cpu_funcs[STARPU_MAXIMPLEMENTATIONS];
    starpu_cpu_func_t cuda_funcs[STARPU_MAXIMPLEMENTATIONS];
    int nbuffers;
    starpu_data_access_mode modes[STARPU_NMAXBUFS];
    starpu_perfmodel* model;
    const char* name;
    unsigned flags;
};

struct tbfsim_starpu_handle { uintptr_t ptr; size_t elemsize; int acquired; };
typedef tbfsim_starpu_handle* starpu_data_handle_t;

struct starpu_variable_interface { uintptr_t ptr; size_t elemsize; };
#define STARPU_VARIABLE_GET_PTR(buf) (reinterpret_cast<starpu_variable_interface*>(buf)->ptr)
#define STARPU_VARIABLE_GET_ELEMSIZE(buf) (reinterpret_cast<starpu_variable_interface*>(buf)->elemsize)

struct starpu_conf;

namespace tbfsim_starpu {
struct State {
    int initCount = 0;
    int nbCpu = 1;
    bool paused = false;
    bool regionOpen = false;
    int forcedWorker = -2;      // inside starpu_execute_on_each_worker
    long liveHandles = 0;
};
inline State& state() { static State s; return s; }

inline void openRegion() {
    State& st = state();
    if (st.regionOpen || !tbfsim::g_sim) return;
    tbfsim::NoCount noCount;
    std::vector<int> ids;
    for (int i = 0; i < st.nbCpu; ++i) ids.push_back(i);
    tbfsim::g_sim->beginRegion(ids, -1, false);
    st.regionOpen = true;
}
inline void closeRegion() {
    State& st = state();
    if (!st.regionOpen || !tbfsim::g_sim) return;
    tbfsim::g_sim->waitAll();
    tbfsim::NoCount noCount;
    tbfsim::g_sim->endRegion();
    st.regionOpen = false;
}
}  // namespace tbfsim_starpu

inline int starpu_init(starpu_conf*) {
    tbfsim_starpu::State& st = tbfsim_starpu::state();
    if (st.initCount++ == 0) { st.nbCpu = tbfsim::g_sim ? tbfsim::g_sim->maxThreads : 1; if (st.nbCpu < 1) st.nbCpu = 1; st.paused = false; }
    return 0;
}
inline void starpu_shutdown() {
    tbfsim_starpu::State& st = tbfsim_starpu::state();
    tbfsim_starpu::closeRegion();
    if (st.initCount > 0) st.initCount -= 1;
}
inline void starpu_pause() { tbfsim_starpu::state().paused = true; }
inline void starpu_resume() { tbfsim_starpu::state().paused = false; }

inline int starpu_worker_get_id() {
    tbfsim_starpu::State& st = tbfsim_starpu::state();
    if (st.forcedWorker != -2) return st.forcedWorker;
    return (tbfsim::g_sim && tbfsim::g_sim->active && tbfsim::g_sim->curTask >= 0) ? tbfsim::g_sim->curWorker : -1;
}
inline unsigned starpu_worker_get_count() { return unsigned(tbfsim_starpu::state().nbCpu); }
inline unsigned starpu_cpu_worker_get_count() { return unsigned(tbfsim_starpu::state().nbCpu); }
inline int starpu_worker_get_count_by_type(starpu_worker_archtype t) { return t == STARPU_CPU_WORKER || t == STARPU_ANY_WORKER ? tbfsim_starpu::state().nbCpu : 0; }

inline void starpu_execute_on_each_worker(void (*func)(void*), void* arg, uint32_t where) {
    tbfsim_starpu::State& st = tbfsim_starpu::state();
    if (!(where & STARPU_CPU)) return;
    for (int w = 0; w < st.nbCpu; ++w) { st.forcedWorker = w; func(arg); }
    st.forcedWorker = -2;
}

inline void starpu_variable_data_register(starpu_data_handle_t* handle, int /*home_node*/, uintptr_t ptr, size_t size) {
    tbfsim::NoCount noCount;
    *handle = new tbfsim_starpu_handle{ptr, size, 0};
    tbfsim_starpu::state().liveHandles += 1;
}
inline int starpu_data_acquire(starpu_data_handle_t handle, starpu_data_access_mode) {
    // blocks until the application may access the data: every task submitted so far on this handle has finished
    if (tbfsim_starpu::state().regionOpen && tbfsim::g_sim) tbfsim::g_sim->waitAll();
    handle->acquired += 1;
    return 0;
}
inline void starpu_data_release(starpu_data_handle_t handle) { handle->acquired -= 1; }
inline void starpu_data_unregister(starpu_data_handle_t handle) {
    if (tbfsim_starpu::state().regionOpen && tbfsim::g_sim) tbfsim::g_sim->waitAll();
    tbfsim::NoCount noCount;
    delete handle;
    tbfsim_starpu::state().liveHandles -= 1;
}

inline int starpu_task_wait_for_all() {
    if (tbfsim_starpu::state().paused && tbfsim::g_sim) {
        // a paused runtime executes nothing: waiting here would never return
        if (tbfsim_starpu::state().regionOpen && tbfsim::g_sim->unfinished > 0) tbfsim::g_sim->errors.push_back("starpu_task_wait_for_all() while the runtime is paused and tasks are pending");
    }
    tbfsim_starpu::closeRegion();
    return 0;
}

// cl_arg layout of this stub: [int n] then n x ([size_t size][bytes])
inline int starpu_insert_task(starpu_codelet* cl, ...) {
    tbfsim::NoCount noCount;
    std::vector<unsigned char> packed(sizeof(int), 0);
    int nvalues = 0, prio = 0, nbuf = 0;
    std::vector<tbfsim::Dep> deps;
    std::vector<starpu_variable_interface> ifaces;
    va_list ap;
    va_start(ap, cl);
    for (;;) {
        const int type = va_arg(ap, int);
        if (type == 0) break;
        if (type == STARPU_VALUE) {
            const void* p = va_arg(ap, void*);
            const size_t sz = va_arg(ap, size_t);
            const size_t off = packed.size();
            packed.resize(off + sizeof(size_t) + sz);
            std::memcpy(&packed[off], &sz, sizeof(size_t));
            std::memcpy(&packed[off + sizeof(size_t)], p, sz);
            nvalues += 1;
        } else if (type == STARPU_PRIORITY) {
            prio = va_arg(ap, int);
        } else if (type == STARPU_NAME) {
            (void)va_arg(ap, const char*);
        } else if (type == STARPU_CALLBACK) {
            (void)va_arg(ap, void*);
        } else if (type > 0 && type < STARPU_ACCESS_MODE_MAX) {
            starpu_data_handle_t h = va_arg(ap, starpu_data_handle_t);
            int mode = tbfsim::AM_R;
            if (type & STARPU_W) mode = (type & STARPU_COMMUTE) ? tbfsim::AM_C : tbfsim::AM_W;
            deps.push_back(tbfsim::Dep{reinterpret_cast<const void*>(h->ptr), mode});
            ifaces.push_back(starpu_variable_interface{h->ptr, h->elemsize});
            if (tbfsim::g_sim && nbuf < cl->nbuffers && int(cl->modes[nbuf]) != type)
                tbfsim::g_sim->errors.push_back(std::string("starpu_insert_task: access mode of buffer ") + std::to_string(nbuf) + " differs from the codelet's declaration");
            nbuf += 1;
        } else {
            if (tbfsim::g_sim) tbfsim::g_sim->errors.push_back("starpu_insert_task: unsupported argument type " + std::to_string(type));
            break;
        }
    }
    va_end(ap);
    std::memcpy(&packed[0], &nvalues, sizeof(int));
    if (tbfsim::g_sim && nbuf != cl->nbuffers) tbfsim::g_sim->errors.push_back("starpu_insert_task: " + std::to_string(nbuf) + " handles given, codelet declares " + std::to_string(cl->nbuffers));
    starpu_cpu_func_t fn = cl->cpu_funcs[0];
    auto body = [fn, packed, ifaces]() mutable {
        std::vector<void*> bufs;
        for (auto& i : ifaces) bufs.push_back(&i);
        fn(bufs.data(), packed.data());
    };
    if (!tbfsim::g_sim) { body(); return 0; }
    tbfsim_starpu::openRegion();
    // a paused runtime starts nothing before starpu_resume(): modelled by the (legal) full-deferral schedules
    tbfsim::g_sim->submit(std::function<void()>(std::move(body)), std::move(deps), prio, false);
    return 0;
}

inline void starpu_codelet_unpack_args(void* cl_arg, ...) {
    const unsigned char* p = static_cast<const unsigned char*>(cl_arg);
    int n = 0;
    std::memcpy(&n, p, sizeof(int));
    p += sizeof(int);
    va_list ap;
    va_start(ap, cl_arg);
    for (int i = 0; i < n; ++i) {
        size_t sz;
        std::memcpy(&sz, p, sizeof(size_t));
        p += sizeof(size_t);
        void* dst = va_arg(ap, void*);
        if (!dst) break;
        std::memcpy(dst, p, sz);
        p += sz;
    }
    va_end(ap);
}

#endif
