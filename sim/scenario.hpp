// Explicit scenario (what a replay file holds) and its JSON form.  DESIGN.md 3.4 / 4.1.
#ifndef TBFSIM_SCENARIO_HPP
#define TBFSIM_SCENARIO_HPP

#include "core.hpp"
#include "json.hpp"

#include <array>
#include <string>
#include <vector>

namespace tbfsim {

struct MoveRec { int tree; long index; std::array<double, 3> pos; };

struct HistOp {
    std::string op;            // "execute" | "top" | "move" | "rebuild"
    int flags = 63;
    int threads = 0;           // thread count in force for this execute (0: the scenario's threads_exec)
    std::vector<MoveRec> moves;
};

struct Scenario {
    std::string prop = "C03";
    std::string executor = "omp";     // seq omp seqtsm omptsm specx specxtsm starpu starputsm
    std::string ordering = "morton";  // morton periodic hilbert
    std::string kernel = "weight";    // weight test counter_test counter_weight rot unif
    std::string variant;              // recipe-specific variant tag
    int height = 3;
    std::array<double, 3> centre{{0.5, 0.5, 0.5}};
    std::array<double, 3> width{{1, 1, 1}};
    long blockSize = 2;
    bool oneGroupPerParent = false;
    long upper = 2;
    int topLevels = -2;               // periodic top tree: -2 none, else nbLevelsAbove0 (-1..3)
    int threadsCtor = 2, threadsExec = 2;
    bool ctorWithKernel = false;
    bool upperDefault = false;        // do not pass the upper working level: the constructors' default (2) applies      // construct the executor from a kernel object instead of from the configuration
    std::vector<std::array<double, 3>> src, tgt;
    std::vector<HistOp> history;
    // schedule
    uint64_t schedSeed = 0;
    Policy policy;
    bool haveDecisions = false;
    std::vector<Decision> decisions;
    // bookkeeping
    uint64_t seed = 0;
    int sub = 0;
    uint64_t runKey = 0;
    std::string flavour;

    bool isTsm() const { return executor.size() >= 3 && executor.compare(executor.size() - 3, 3, "tsm") == 0; }
    bool isFloat() const { return kernel == "weight_float" || kernel == "weight_f35" || kernel == "rot_float"; }
    bool isNumeric() const { return kernel == "rot" || kernel == "unif" || kernel == "rot_float"; }
    bool isPeriodic() const { return ordering == "periodic"; }
    bool isTaskBased() const { return executor != "seq" && executor != "seqtsm"; }

    Json toJson() const {
        Json j = Json::object();
        j.set("prop", prop).set("executor", executor).set("ordering", ordering).set("kernel", kernel).set("variant", variant);
        j.set("height", height);
        Json c = Json::array(), w = Json::array();
        for (int d = 0; d < 3; ++d) { c.push(Json::hexf(centre[size_t(d)])); w.push(Json::hexf(width[size_t(d)])); }
        j.set("centre", c).set("width", w);
        j.set("block_size", blockSize).set("one_group_per_parent", oneGroupPerParent).set("upper", upper).set("top_levels", topLevels);
        j.set("threads_ctor", threadsCtor).set("threads_exec", threadsExec).set("ctor_with_kernel", ctorWithKernel).set("upper_default", upperDefault);
        auto parts = [](const std::vector<std::array<double, 3>>& v) {
            Json a = Json::array();
            for (const auto& p : v) { Json q = Json::array(); for (int d = 0; d < 3; ++d) q.push(Json::hexf(p[size_t(d)])); a.push(q); }
            return a;
        };
        j.set("particles", parts(src)).set("targets", parts(tgt));
        Json h = Json::array();
        for (const HistOp& op : history) {
            Json o = Json::object();
            o.set("op", op.op);
            if (op.op == "execute" || op.op == "top") o.set("flags", op.flags);
            if (op.threads > 0) o.set("threads", op.threads);
            if (op.op == "move") {
                Json mv = Json::array();
                for (const MoveRec& m : op.moves) {
                    Json q = Json::array();
                    q.push(m.tree).push(m.index);
                    for (int d = 0; d < 3; ++d) q.push(Json::hexf(m.pos[size_t(d)]));
                    mv.push(q);
                }
                o.set("moves", mv);
            }
            h.push(o);
        }
        j.set("history", h);
        Json p = Json::object();
        p.set("p_create", policy.pCreate).set("p_yield", policy.pYield).set("p_deep", policy.pDeep).set("pick", policy.pick).set("worker_mode", policy.workerMode)
         .set("fixed_worker", policy.fixedWorker).set("scribble", policy.scribble).set("team_shrink", policy.teamShrink);
        j.set("policy", p);
        j.set("sched_seed", (long long)schedSeed);
        j.set("run_key", (long long)runKey);
        j.set("seed", (long long)seed).set("sub", sub);
        if (haveDecisions) {
            Json d = Json::array();
            for (const Decision& x : decisions) { Json q = Json::array(); q.push(x.ordinal).push(x.pick).push(x.worker); d.push(q); }
            j.set("decisions", d);
        }
        return j;
    }

    static Scenario fromJson(const Json& j) {
        Scenario s;
        s.prop = j.getStr("prop", s.prop);
        s.executor = j.getStr("executor", s.executor);
        s.ordering = j.getStr("ordering", s.ordering);
        s.kernel = j.getStr("kernel", s.kernel);
        s.variant = j.getStr("variant", "");
        s.height = int(j.getInt("height", 3));
        for (int d = 0; d < 3; ++d) {
            if (j.has("centre")) s.centre[size_t(d)] = j.at("centre").a[size_t(d)].asReal();
            if (j.has("width")) s.width[size_t(d)] = j.at("width").a[size_t(d)].asReal();
        }
        s.blockSize = long(j.getInt("block_size", 2));
        s.oneGroupPerParent = j.getBool("one_group_per_parent", false);
        s.upper = long(j.getInt("upper", 2));
        s.topLevels = int(j.getInt("top_levels", -2));
        s.threadsCtor = int(j.getInt("threads_ctor", 2));
        s.threadsExec = int(j.getInt("threads_exec", 2));
        s.ctorWithKernel = j.getBool("ctor_with_kernel", false);
        s.upperDefault = j.getBool("upper_default", false);
        auto parts = [](const Json& a, std::vector<std::array<double, 3>>& v) {
            for (const Json& q : a.a) v.push_back(std::array<double, 3>{{q.a[0].asReal(), q.a[1].asReal(), q.a[2].asReal()}});
        };
        if (j.has("particles")) parts(j.at("particles"), s.src);
        if (j.has("targets")) parts(j.at("targets"), s.tgt);
        if (j.has("history")) for (const Json& o : j.at("history").a) {
            HistOp op;
            op.op = o.getStr("op", "execute");
            op.flags = int(o.getInt("flags", 63));
            op.threads = int(o.getInt("threads", 0));
            if (o.has("moves")) for (const Json& q : o.at("moves").a)
                op.moves.push_back(MoveRec{int(q.a[0].asInt()), long(q.a[1].asInt()), {{q.a[2].asReal(), q.a[3].asReal(), q.a[4].asReal()}}});
            s.history.push_back(op);
        }
        if (j.has("policy")) {
            const Json& p = j.at("policy");
            s.policy.pCreate = p.getReal("p_create", 0);
            s.policy.pYield = p.getReal("p_yield", 0);
            s.policy.pDeep = p.getReal("p_deep", 0);
            s.policy.pick = int(p.getInt("pick", 0));
            s.policy.workerMode = int(p.getInt("worker_mode", 0));
            s.policy.fixedWorker = int(p.getInt("fixed_worker", 1));
            s.policy.scribble = p.getBool("scribble", false);
            s.policy.teamShrink = int(p.getInt("team_shrink", 0));
        }
        s.schedSeed = uint64_t(j.getInt("sched_seed", 0));
        s.runKey = uint64_t(j.getInt("run_key", 0));
        s.seed = uint64_t(j.getInt("seed", 0));
        s.sub = int(j.getInt("sub", 0));
        if (j.has("decisions")) {
            s.haveDecisions = true;
            for (const Json& q : j.at("decisions").a) s.decisions.push_back(Decision{int(q.a[0].asInt()), int(q.a[1].asInt()), int(q.a[2].asInt())});
        }
        return s;
    }
};

}  // namespace tbfsim
#endif
