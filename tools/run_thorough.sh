#!/bin/bash
cd "$(dirname "$0")/.."
for c in C09 C18 C02 C03 C12 C15; do
  echo "=== $c $(date)"; ( time nice python3 tools/check.py $c --tier thorough --workers 7 --evidence-dir /var/tmp/ev_th --replay-dir /var/tmp/ev_th ) 2>&1 | grep -v "^KNOWN" | tail -8 | cut -c1-400
done
echo "=== done $(date)"
