// Minimal JSON value, parser and writer (replay files, result lines).  No dependency, no locale, deterministic output.
#ifndef TBFSIM_JSON_HPP
#define TBFSIM_JSON_HPP

#include <string>
#include <vector>
#include <map>
#include <cstdio>
#include <cstdlib>
#include <cstdint>
#include <stdexcept>
#include <memory>

namespace tbfsim {

struct Json {
    enum Type { Null, Bool, Int, Real, Str, Arr, Obj } type = Null;
    bool b = false;
    long long i = 0;
    double d = 0;
    std::string s;
    std::vector<Json> a;
    std::vector<std::pair<std::string, Json>> o;   // insertion ordered

    Json() {}
    Json(bool v) : type(Bool), b(v) {}
    Json(int v) : type(Int), i(v) {}
    Json(long v) : type(Int), i(v) {}
    Json(long long v) : type(Int), i(v) {}
    Json(unsigned long v) : type(Int), i((long long)v) {}
    Json(double v) : type(Real), d(v) {}
    Json(const char* v) : type(Str), s(v) {}
    Json(const std::string& v) : type(Str), s(v) {}
    static Json array() { Json j; j.type = Arr; return j; }
    static Json object() { Json j; j.type = Obj; return j; }

    Json& push(const Json& v) { type = Arr; a.push_back(v); return *this; }
    Json& set(const std::string& k, const Json& v) {
        type = Obj;
        for (auto& kv : o) if (kv.first == k) { kv.second = v; return *this; }
        o.emplace_back(k, v);
        return *this;
    }
    bool has(const std::string& k) const { for (auto& kv : o) if (kv.first == k) return true; return false; }
    const Json& at(const std::string& k) const {
        for (auto& kv : o) if (kv.first == k) return kv.second;
        static const Json nul; return nul;
    }
    long long asInt(long long def = 0) const { return type == Int ? i : (type == Real ? (long long)d : (type == Bool ? b : def)); }
    double asReal(double def = 0) const {
        if (type == Real) return d;
        if (type == Int) return double(i);
        if (type == Str) return std::strtod(s.c_str(), nullptr);   // hex floats are stored as strings
        return def;
    }
    bool asBool(bool def = false) const { return type == Bool ? b : (type == Int ? i != 0 : def); }
    const std::string& asStr() const { return s; }
    long long getInt(const std::string& k, long long def = 0) const { return has(k) ? at(k).asInt(def) : def; }
    double getReal(const std::string& k, double def = 0) const { return has(k) ? at(k).asReal(def) : def; }
    bool getBool(const std::string& k, bool def = false) const { return has(k) ? at(k).asBool(def) : def; }
    std::string getStr(const std::string& k, const std::string& def = "") const { return has(k) ? at(k).s : def; }

    static std::string hexf(double v) { char buf[64]; std::snprintf(buf, sizeof buf, "%a", v); return buf; }

    static void esc(std::string& out, const std::string& v) {
        out += '"';
        for (unsigned char c : v) {
            if (c == '"' || c == '\\') { out += '\\'; out += char(c); }
            else if (c == '\n') out += "\\n";
            else if (c == '\t') out += "\\t";
            else if (c < 0x20) { char b[8]; std::snprintf(b, sizeof b, "\\u%04x", c); out += b; }
            else out += char(c);
        }
        out += '"';
    }
    void dump(std::string& out) const {
        switch (type) {
            case Null: out += "null"; break;
            case Bool: out += b ? "true" : "false"; break;
            case Int: out += std::to_string(i); break;
            case Real: { char buf[64]; std::snprintf(buf, sizeof buf, "%.17g", d); out += buf; break; }
            case Str: esc(out, s); break;
            case Arr: { out += '['; for (size_t k = 0; k < a.size(); ++k) { if (k) out += ','; a[k].dump(out); } out += ']'; break; }
            case Obj: { out += '{'; for (size_t k = 0; k < o.size(); ++k) { if (k) out += ','; esc(out, o[k].first); out += ':'; o[k].second.dump(out); } out += '}'; break; }
        }
    }
    std::string dump() const { std::string s2; dump(s2); return s2; }

    // ---- parser ----
    struct P {
        const char* p; const char* e;
        void ws() { while (p < e && (*p == ' ' || *p == '\n' || *p == '\t' || *p == '\r')) ++p; }
        [[noreturn]] void fail(const char* m) { throw std::runtime_error(std::string("json: ") + m); }
        Json val() {
            ws();
            if (p >= e) fail("eof");
            if (*p == '{') {
                ++p; Json j = Json::object(); ws();
                if (p < e && *p == '}') { ++p; return j; }
                for (;;) {
                    ws(); if (p >= e || *p != '"') fail("key");
                    std::string k = str(); ws();
                    if (p >= e || *p != ':') fail("colon");
                    ++p; j.o.emplace_back(k, val()); ws();
                    if (p < e && *p == ',') { ++p; continue; }
                    if (p < e && *p == '}') { ++p; return j; }
                    fail("object");
                }
            }
            if (*p == '[') {
                ++p; Json j = Json::array(); ws();
                if (p < e && *p == ']') { ++p; return j; }
                for (;;) {
                    j.a.push_back(val()); ws();
                    if (p < e && *p == ',') { ++p; continue; }
                    if (p < e && *p == ']') { ++p; return j; }
                    fail("array");
                }
            }
            if (*p == '"') return Json(str());
            if (e - p >= 4 && std::string(p, 4) == "true") { p += 4; return Json(true); }
            if (e - p >= 5 && std::string(p, 5) == "false") { p += 5; return Json(false); }
            if (e - p >= 4 && std::string(p, 4) == "null") { p += 4; return Json(); }
            const char* q = p; bool real = false;
            if (q < e && (*q == '-' || *q == '+')) ++q;
            while (q < e && ((*q >= '0' && *q <= '9') || *q == '.' || *q == 'e' || *q == 'E' || *q == '-' || *q == '+')) {
                if (*q == '.' || *q == 'e' || *q == 'E') real = true;
                ++q;
            }
            if (q == p) fail("value");
            std::string t(p, q); p = q;
            if (real) return Json(std::strtod(t.c_str(), nullptr));
            return Json((long long)std::strtoll(t.c_str(), nullptr, 10));
        }
        std::string str() {
            ++p; std::string r;
            while (p < e && *p != '"') {
                if (*p == '\\' && p + 1 < e) {
                    ++p;
                    if (*p == 'n') r += '\n'; else if (*p == 't') r += '\t';
                    else if (*p == 'u' && p + 4 < e) { r += char(std::strtol(std::string(p + 1, 4).c_str(), nullptr, 16)); p += 4; }
                    else r += *p;
                    ++p;
                } else r += *p++;
            }
            if (p >= e) fail("string");
            ++p; return r;
        }
    };
    static Json parse(const std::string& text) { P ps{text.data(), text.data() + text.size()}; Json j = ps.val(); return j; }
};

}  // namespace tbfsim
#endif
