// Seeded scenario generation (DESIGN.md 4.1) and per-sub-run schedule policies (3.2, 3.3).
#include "recipes.hpp"

#include <cmath>
#include <cstdlib>
#include <algorithm>
#include <map>
#include <set>

namespace tbfsim {

static double clampToBox(double p, double corner, double width) {
    // the library asserts 0 <= p - corner <= width in floating point: enforce exactly that
    for (int k = 0; k < 64 && (p - corner) < 0; ++k) p = std::nextafter(p, INFINITY);
    for (int k = 0; k < 64 && (p - corner) > width; ++k) p = std::nextafter(p, -INFINITY);
    if ((p - corner) < 0 || (p - corner) > width) p = corner + width * 0.5;
    return p;
}

static long pickWeighted(Prng& r, const std::vector<std::pair<long, int>>& table) {
    int tot = 0;
    for (auto& e : table) tot += e.second;
    int x = int(r.below(uint64_t(tot)));
    for (auto& e : table) { if (x < e.second) return e.first; x -= e.second; }
    return table.back().first;
}

// u in [0,1]^3 for one particle, by distribution kind
static void genCloud(Prng& r, int kind, long n, int height, std::vector<std::array<double, 3>>& out, const double regionLo[3], const double regionHi[3]) {
    const long cellsPerDim = 1L << (height - 1);
    std::vector<std::array<double, 3>> centres;
    for (int k = 0; k < 4; ++k) centres.push_back({{r.unit(), r.unit(), r.unit()}});
    const std::array<double, 3> one{{r.unit(), r.unit(), r.unit()}};
    const long leafA[3] = {long(r.below(uint64_t(cellsPerDim))), long(r.below(uint64_t(cellsPerDim))), long(r.below(uint64_t(cellsPerDim)))};
    const int planeDim = int(r.below(3));
    const double planeVal = r.unit();
    std::vector<std::array<double, 3>> few;
    for (int k = 0; k < 3; ++k) few.push_back({{r.unit(), r.unit(), r.unit()}});
    const int cornerLevel = 1 + int(r.below(uint64_t(height > 1 ? height - 1 : 1)));
    const bool cornerHigh = r.chance(0.3);
    // kind 8: complete sibling sets -- every one of the 8 children of a few cells of the level above the leaves is occupied
    std::vector<std::array<long, 3>> parents;
    if (kind == 8 && height >= 2) {
        const long parentsPerDim = cellsPerDim / 2;
        const int np = 1 + int(r.below(3));
        for (int k = 0; k < np; ++k) parents.push_back({{long(r.below(uint64_t(parentsPerDim))), long(r.below(uint64_t(parentsPerDim))), long(r.below(uint64_t(parentsPerDim)))}});
    }
    for (long i = 0; i < n; ++i) {
        std::array<double, 3> u{{0, 0, 0}};
        int k = kind;
        if (k == 7) k = int(r.below(7));
        if (k == 8 && parents.empty()) k = 0;
        switch (k) {
            case 9: {   // confined to the cell of lowest (or highest) index of some level: index 0 / all-ones at every level above
                for (int d = 0; d < 3; ++d) { const double v = r.unit() / double(1L << cornerLevel); u[size_t(d)] = cornerHigh ? 1.0 - v : v; }
                break;
            }
            case 8: {
                const bool fill = i < long(parents.size()) * 8;
                const auto& pa = parents[fill ? size_t(i / 8) : size_t(r.below(parents.size()))];
                const int child = fill ? int(i % 8) : int(r.below(8));
                for (int d = 0; d < 3; ++d) u[size_t(d)] = (double(pa[size_t(d)] * 2 + ((child >> d) & 1)) + 0.05 + 0.9 * r.unit()) / double(cellsPerDim);
                break;
            }
            case 0: for (int d = 0; d < 3; ++d) u[size_t(d)] = r.unit(); break;
            case 1: {
                const auto& c = centres[r.below(centres.size())];
                for (int d = 0; d < 3; ++d) {
                    double g = 0; for (int q = 0; q < 4; ++q) g += r.unit() - 0.5;
                    u[size_t(d)] = std::min(1.0, std::max(0.0, c[size_t(d)] + g * 0.08));
                }
                break;
            }
            case 2:  // lattice: on cell faces / edges / corners, including the closed upper faces of the box
                for (int d = 0; d < 3; ++d) {
                    if (r.chance(0.7)) u[size_t(d)] = double(r.below(uint64_t(cellsPerDim + 1))) / double(cellsPerDim);
                    else u[size_t(d)] = r.unit();
                }
                break;
            case 3: u = few[r.below(few.size())]; break;                                  // coincident points
            case 4: for (int d = 0; d < 3; ++d) u[size_t(d)] = (double(leafA[d]) + r.unit()) / double(cellsPerDim); break;   // one leaf
            case 5: { const bool hi = r.chance(0.5); for (int d = 0; d < 3; ++d) u[size_t(d)] = hi ? 1.0 - r.unit() / double(cellsPerDim) : r.unit() / double(cellsPerDim); break; }
            case 6: for (int d = 0; d < 3; ++d) u[size_t(d)] = (d == planeDim) ? planeVal : r.unit(); break;
            default: u = one; break;
        }
        for (int d = 0; d < 3; ++d) u[size_t(d)] = regionLo[d] + u[size_t(d)] * (regionHi[d] - regionLo[d]);
        out.push_back(u);
    }
}

static double clampToBoxF(double pd, float centre, float width) {
    // single-precision trees: the library evaluates  float(p) - (centre + width * (-1/2))  in float
    const float corner = centre + width * (-1.0f / 2.0f);
    float p = float(pd);
    for (int k = 0; k < 64 && (p - corner) < 0; ++k) p = std::nextafterf(p, INFINITY);
    for (int k = 0; k < 64 && (p - corner) > width; ++k) p = std::nextafterf(p, -INFINITY);
    if ((p - corner) < 0 || (p - corner) > width) p = corner + width * 0.5f;
    return double(p);
}

static void toBox(const Scenario& sc, std::vector<std::array<double, 3>>& pts) {
    // one coordinate in eight (chosen by a hash of its value: no PRNG draw) is moved by one unit in the last place before clamping:
    // lattice positions then also come as "one ulp below / above a cell face", the upper box face included
    if (sc.isFloat()) {
        for (auto& p : pts) for (int d = 0; d < 3; ++d) {
            const double corner = sc.centre[size_t(d)] + sc.width[size_t(d)] * (-1.0 / 2.0);
            float v = float(corner + p[size_t(d)] * sc.width[size_t(d)]);
            uint32_t bits; std::memcpy(&bits, &v, sizeof bits);
            const uint64_t h = mix64(0x5EEDULL + uint64_t(d), bits);
            if ((h & 7) == 0) v = std::nextafterf(v, (h & 8) ? INFINITY : -INFINITY);
            p[size_t(d)] = clampToBoxF(double(v), float(sc.centre[size_t(d)]), float(sc.width[size_t(d)]));
        }
        return;
    }
    for (auto& p : pts) for (int d = 0; d < 3; ++d) {
        const double corner = sc.centre[size_t(d)] + sc.width[size_t(d)] * (-1.0 / 2.0);
        double v = corner + p[size_t(d)] * sc.width[size_t(d)];
        uint64_t bits; std::memcpy(&bits, &v, sizeof bits);
        const uint64_t h = mix64(0x5EEDULL + uint64_t(d), bits);
        if ((h & 7) == 0) v = std::nextafter(v, (h & 8) ? INFINITY : -INFINITY);
        p[size_t(d)] = clampToBox(v, corner, sc.width[size_t(d)]);
    }
}


// The 112 dependency-respecting stagings of {P2M < M2M < M2L < L2L < L2P, P2P free} (DESIGN appendix A.4) + 6 single flags.
static const std::vector<std::vector<int>>& stagings() {
    static std::vector<std::vector<int>> table;
    if (!table.empty()) return table;
    const int chain[5] = {F_P2M, F_M2M, F_M2L, F_L2L, F_L2P};
    for (int mask = 0; mask < 16; ++mask) {
        std::vector<int> blocks(1, 0);
        for (int i = 0; i < 5; ++i) {
            blocks.back() |= chain[i];
            if (i < 4 && (mask & (1 << i))) blocks.push_back(0);
        }
        const int k = int(blocks.size());
        for (int j = 0; j < k; ++j) { std::vector<int> st = blocks; st[size_t(j)] |= F_P2P; table.push_back(st); }
        for (int p = 0; p <= k; ++p) { std::vector<int> st = blocks; st.insert(st.begin() + p, F_P2P); table.push_back(st); }
    }
    const int singles[6] = {F_P2M, F_M2M, F_M2L, F_L2L, F_L2P, F_P2P};
    for (int f : singles) table.push_back(std::vector<int>(1, f));
    return table;
}
int nbStagings() { return int(stagings().size()); }

static void applyStaging(Scenario& sc, int k) {
    if (sc.topLevels >= -1) {
        // periodic run with the top-tree executor itself staged: its M2M / M2L / L2L flags split over 1..3 calls
        static const int comps[4][3] = {{F_M2M | F_M2L | F_L2L, 0, 0}, {F_M2M, F_M2L | F_L2L, 0}, {F_M2M | F_M2L, F_L2L, 0}, {F_M2M, F_M2L, F_L2L}};
        HistOp a, b, c;
        a.op = b.op = c.op = "execute";
        a.flags = F_P2M | F_M2M; b.flags = F_M2L | F_P2P; c.flags = F_L2L | F_L2P;
        sc.history.clear();
        sc.history.push_back(a);
        auto top = [&](int f) { HistOp t; t.op = "top"; t.flags = f; sc.history.push_back(t); };
        // the top-tree pass and the transfer pass are independent (both only ADD to the level-1 locals): either order, and the
        // top-tree pass may be interleaved with it; the reference is always the documented order with one top-tree call
        switch (k % 8) {
            case 4: sc.history.push_back(b); top(F_M2M | F_M2L | F_L2L); break;
            case 5: sc.history.push_back(b); top(F_M2M); top(F_M2L | F_L2L); break;
            case 6: top(F_M2M | F_M2L); sc.history.push_back(b); top(F_L2L); break;
            case 7: top(F_M2M); sc.history.push_back(b); top(F_M2L); top(F_L2L); break;
            default: for (int i = 0; i < 3; ++i) if (comps[k % 4][i]) top(comps[k % 4][i]); sc.history.push_back(b); break;
        }
        sc.history.push_back(c);
        sc.variant = "topstaged";
        return;
    }
    const auto& t = stagings();
    const std::vector<int>& st = t[size_t(k) % t.size()];
    sc.history.clear();
    for (int f : st) { HistOp op; op.op = "execute"; op.flags = f; sc.history.push_back(op); }
    sc.variant = (size_t(k) % t.size()) < 112 ? "staged" : "single";
}

void applySchedule(Scenario& sc, int sub, bool plainFlavour) {
    if (sc.prop == "C12") applyStaging(sc, sub);
    Prng r(sc.seed * 0x9E3779B97F4A7C15ULL + uint64_t(sub) * 0xD1B54A32D192ED03ULL + 17);
    sc.sub = sub;
    sc.schedSeed = r.next();
    Policy p;
    static const double pc[] = {0.0, 0.0, 0.05, 0.3, 1.0};
    static const double py[] = {0.0, 0.05, 0.3};
    p.pCreate = pc[r.below(5)];
    p.pYield = py[r.below(3)];
    p.pick = int(r.below(PICK_NB));
    p.workerMode = int(r.below(WK_NB));
    p.fixedWorker = int(r.below(16));
    p.scribble = plainFlavour && p.pCreate < 1.0 && r.chance(0.6);
    p.teamShrink = r.chance(0.25) ? int(r.below(4)) + 1 : 0;
    if (sub == 0) {          // canonical adversary: everything deferred to the final wait, submission order, dead stack scribbled
        p = Policy();
        p.scribble = plainFlavour;
        p.workerMode = WK_ROUNDROBIN;
    } else if (sub == 1) {   // eager
        p = Policy();
        p.pCreate = 1.0;
        p.pick = PICK_LIFO;
        p.workerMode = WK_UNIFORM;
    } else if (sub == 2) {   // deferred, reverse order, overlap inside callbacks
        p = Policy();
        p.pick = PICK_LIFO;
        p.pYield = 0.3;
        p.workerMode = WK_UNIFORM;
        p.scribble = plainFlavour;
    }
    // the shipped floating-point kernels are built with function-boundary scheduling points: preemption inside one kernel operator
    if (sc.isNumeric() && sc.isTaskBased() && sub != 0 && sub != 1 && r.chance(0.5)) {
        static const double pd[] = {0.002, 0.02, 0.1};
        p.pDeep = pd[r.below(3)];
    }
    sc.policy = p;
}

Scenario generate(const std::string& prop, uint64_t seed, const std::string& tier, bool plainFlavour) {
    (void)tier;
    Scenario sc;
    sc.prop = prop;
    sc.seed = seed;
    Prng r(seed * 0xA24BAED4963EE407ULL + 0x5151);
    sc.runKey = r.next() | 1;

    // executor / ordering / kernel mix per property
    sc.kernel = "weight";
    sc.ordering = "morton";
    if (prop == "C09") sc.executor = r.chance(0.3) ? "seqtsm" : "omptsm";
    else if (prop == "C18") { sc.executor = r.chance(0.25) ? "seq" : "omp"; sc.kernel = r.chance(0.5) ? "counter_weight" : "counter_test"; }
    else if (prop == "C02") {
        static const char* ex[] = {"seq", "omp", "omp", "seqtsm", "omptsm", "omp", "specx", "specxtsm", "starpu", "starputsm"};
        sc.executor = ex[r.below(10)];
    } else if (prop == "C12") {
        static const char* ex[] = {"seq", "omp", "omp", "seqtsm", "omptsm", "omp", "specx", "specxtsm", "starpu", "starputsm"};
        sc.executor = ex[r.below(10)];
    } else if (prop == "C13") {
        static const char* ex[] = {"seq", "omp", "omp", "seqtsm", "omptsm", "omp"};
        sc.executor = ex[r.below(6)];
    } else {
        static const char* ex[] = {"omp", "omp", "omp", "omptsm", "omptsm", "specx", "specxtsm", "starpu", "starputsm", "seq", "seqtsm"};
        sc.executor = ex[r.below(prop == "C03" ? 9 : 11)];
    }

    if (const char* f = getenv("TBFSIM_FORCE_EXECUTOR")) sc.executor = f;
    // the shipped floating-point kernels (C03 "to rounding", C15): OpenMP and sequential executors, Morton ordering, cubic box
    bool numeric = false;
    if (((prop == "C03" || prop == "C15") && r.chance(0.2)) || (prop == "C12" && r.chance(0.12))) {
        const bool rot = r.chance(prop == "C12" ? 0.4 : 0.6);
        sc.kernel = rot ? (r.chance(0.2) ? "rot_float" : "rot") : "unif";
        static const char* exr[] = {"omp", "omptsm", "omptsm", "seq", "seqtsm"};
        static const char* exu[] = {"omp", "omp", "omptsm", "seq", "seqtsm"};
        sc.executor = rot ? exr[r.below(prop == "C03" ? 3 : 5)] : exu[r.below(prop == "C03" ? 3 : 5)];
        numeric = true;
    }
    if (!numeric && (prop == "C02" || prop == "C03" || prop == "C15" || prop == "C13") && r.chance(0.12)
        && (sc.executor == "seq" || sc.executor == "omp" || sc.executor == "seqtsm" || sc.executor == "omptsm")) {
        sc.kernel = r.chance(0.3) ? "weight_f35" : "weight_float";   // single-precision tree (positions, data) with the exact integer kernel; f35: 3 data / 5 result values (odd number of 4-byte rows)
        numeric = false;
    }
    if (!numeric && sc.kernel == "weight" && (prop == "C13" || prop == "C02" || prop == "C03" || prop == "C15") && r.chance(prop == "C13" ? 0.25 : 0.08)
        && (sc.executor == "seq" || sc.executor == "omp" || sc.executor == "seqtsm" || sc.executor == "omptsm")) {
        sc.kernel = r.chance(0.5) ? "weight_s35" : "weight_s62";   // other container shapes: 3 data / 5 result values, 6 data / 2 result values
    }
    if (!numeric && sc.kernel == "weight" && (prop == "C02" || prop == "C03" || prop == "C15") && r.chance(0.06)
        && (sc.executor == "seq" || sc.executor == "omp" || sc.executor == "seqtsm" || sc.executor == "omptsm")) {
        sc.kernel = "test";   // the library's own TbfTestKernel (level- and position-blind, integer)
    }
    if (const char* f = getenv("TBFSIM_FORCE_KERNEL")) { sc.kernel = f; numeric = sc.isNumeric(); if (sc.kernel == "unif" && sc.isTsm()) sc.executor = "omp"; }
    // ordering
    {
        int pm = 100, pp = 0, ph = 0;
        if (prop == "C02") { pm = 50; pp = 30; ph = 20; }
        else if (prop == "C03" || prop == "C15") { pm = 60; pp = 25; ph = 15; }
        else if (prop == "C09") { pm = 70; pp = 15; ph = 15; }
        else if (prop == "C12") { pm = 70; pp = 30; ph = 0; }
        else if (prop == "C13") { pm = 60; pp = 20; ph = 20; }
        else if (prop == "C18" && sc.kernel == "counter_weight") { pm = 75; pp = 25; ph = 0; }   // periodic: the regular executor's and the top-tree algorithm's counters
        const int x = int(r.below(100));
        sc.ordering = x < pm ? "morton" : (x < pm + pp ? "periodic" : "hilbert");
        (void)ph;
        if (const char* f = getenv("TBFSIM_FORCE_ORDERING")) sc.ordering = f;
        if (sc.executor.rfind("specx", 0) == 0 || sc.executor.rfind("starpu", 0) == 0 || numeric || sc.isFloat() || sc.kernel.rfind("weight_s", 0) == 0 || sc.kernel == "test") sc.ordering = "morton";
        if (sc.kernel == "rot" && r.chance(0.35)) sc.ordering = "periodic";   // the rotation kernel also ships a periodic near field
        if (sc.kernel == "unif" && !sc.isTsm() && r.chance(0.3)) sc.ordering = "periodic";   // and so does the uniform kernel
    }

    sc.height = int(pickWeighted(r, {{1, 3}, {2, 7}, {3, 25}, {4, 32}, {5, 25}, {6, 8}}));
    // tall, sparse trees: few clustered particles, space indexes beyond 32 bits at the deep levels (index = 3 bits per level)
    bool tall = false;
    if (!numeric && prop != "C12" && r.chance(0.07)) { sc.height = 7 + int(r.below(12)); tall = true; }
    // box
    const double scales[] = {1e-3, 0.1, 1.0, 1.0, 1.0, 7.5, 1e3};
    const double w0 = scales[r.below(7)] * (0.5 + r.unit());
    for (int d = 0; d < 3; ++d) {
        sc.width[size_t(d)] = r.chance(0.7) ? w0 : w0 * (0.25 + 1.5 * r.unit());
        sc.centre[size_t(d)] = r.chance(0.3) ? 0.5 * sc.width[size_t(d)] : (r.unit() * 2 - 1) * 3.0 * w0;
    }
    if (numeric) { sc.width[1] = sc.width[0]; sc.width[2] = sc.width[0]; if (sc.height > 5) sc.height = 5; }
    if (sc.isFloat()) for (int d = 0; d < 3; ++d) { sc.width[size_t(d)] = double(float(sc.width[size_t(d)])); sc.centre[size_t(d)] = double(float(sc.centre[size_t(d)])); }
    // particles
    long maxN = sc.height >= 6 ? 120 : (sc.height == 5 ? 220 : 400);
    if (tall) maxN = 48;
    if (prop == "C12") { maxN = 120; if (sc.height > 5) sc.height = 5; }
    if (prop == "C13") maxN = 200;
    if (numeric) maxN = 150;
    long n = 1 + long(std::pow(r.unit(), 1.7) * double(maxN - 1));
    const double lo[3] = {0, 0, 0}, hi[3] = {1, 1, 1};
    int kind = int(r.below(8));
    if (tall) { static const int tk[] = {1, 3, 4, 5, 1, 4, 2, 0}; kind = tk[r.below(8)]; }
    if (r.chance(prop == "C12" && numeric ? 0.5 : 0.08)) { kind = 8; if (n < 24) n += 24; }
    else if (r.chance(0.05)) kind = 9;   // everything in the lowest- or highest-index cell of some level   // complete sibling sets (all 8 children of a parent present, possibly in one group)
    if (!sc.isTsm()) {
        genCloud(r, kind, n, sc.height, sc.src, lo, hi);
    } else {
        const int mode = int(r.below(8));   // 6, 7: "in phase" - the target set is the source set with a few particles displaced
        const long nt = 1 + long(std::pow(r.unit(), 1.7) * double(maxN - 1));
        double sLo[3] = {0, 0, 0}, sHi[3] = {1, 1, 1}, tLo[3] = {0, 0, 0}, tHi[3] = {1, 1, 1};
        if (mode == 0) { const int d = int(r.below(3)); sHi[d] = 0.5; tLo[d] = 0.5; }               // disjoint regions
        if (mode == 1) { const int d = int(r.below(3)); sHi[d] = 0.6; tLo[d] = 0.4; }               // overlapping
        genCloud(r, mode == 3 ? 4 : kind, mode == 4 ? 1 : n, sc.height, sc.src, sLo, sHi);
        if (mode == 2) { sc.tgt = sc.src; }                                                      // identical positions
        else if (mode >= 6) {
            // same leaves at the group boundaries, same counts, but different inner leaves: group summaries coincide
            sc.tgt = sc.src;
            const int moves = 1 + int(r.below(3));
            for (int k = 0; k < moves && !sc.tgt.empty(); ++k) {
                const size_t who = size_t(r.below(sc.tgt.size()));
                for (int d = 0; d < 3; ++d) sc.tgt[who][size_t(d)] = r.unit();
            }
            if (r.chance(0.5)) for (int k = 0; k < moves && !sc.src.empty(); ++k) {
                const size_t who = size_t(r.below(sc.src.size()));
                for (int d = 0; d < 3; ++d) sc.src[who][size_t(d)] = r.unit();
            }
        }
        else genCloud(r, mode == 5 ? 4 : (r.chance(0.06) ? 9 : int(r.below(8))), mode == 5 && r.chance(0.5) ? 1 : nt, sc.height, sc.tgt, tLo, tHi);
        if (r.chance(0.04)) { if (r.chance(0.5)) sc.src.clear(); else sc.tgt.clear(); }               // one side without any particle
    }
    toBox(sc, sc.src);
    toBox(sc, sc.tgt);

    // grouping
    // number of occupied leaves, by my own binning (only used to pick block sizes around interesting relations)
    long nbLeaves = 1;
    {
        std::set<std::array<long, 3>> occ;
        const long cells = 1L << (sc.height - 1);
        for (const auto& p : sc.src) {
            std::array<long, 3> c;
            for (int d = 0; d < 3; ++d) {
                const double corner = sc.centre[size_t(d)] + sc.width[size_t(d)] * (-1.0 / 2.0);
                long k = long((p[size_t(d)] - corner) / (sc.width[size_t(d)] / double(cells)));
                c[size_t(d)] = std::min(cells - 1, std::max(0L, k));
            }
            occ.insert(c);
        }
        nbLeaves = std::max<long>(1, long(occ.size()));
    }
    const long bs[] = {1, 2, 3, 4 + long(r.below(13)), nbLeaves, 1000000,
                       std::max(1L, nbLeaves - 1), nbLeaves + 1, (nbLeaves + 1) / 2, (nbLeaves + 2) / 3, 7, 8, 9, 1 + long(r.below(uint64_t(nbLeaves)))};
    sc.blockSize = bs[r.below(14)];
    if (r.chance(0.06)) sc.blockSize = -1;   // the library's automatic block size (TbfBlockSizeFinder)
    if (sc.src.size() + sc.tgt.size() > 200 && sc.blockSize >= 0 && sc.blockSize < 3) sc.blockSize = 3 + long(r.below(6));   // keeps the task count of one run in the thousands
    sc.oneGroupPerParent = r.chance(0.35);
    sc.upper = r.chance(0.7) ? (sc.isPeriodic() ? 1 : 2) : long(r.below(uint64_t(sc.height + 1)));
    if (prop == "C12") sc.upper = long(r.below(uint64_t(sc.height + 1)));
    if (prop == "C12" && sc.isPeriodic() && sc.height >= 2 && sc.kernel != "unif" && r.chance(0.4) && !(sc.isTsm() && (sc.src.empty() || sc.tgt.empty()))
        && (sc.executor == "seq" || sc.executor == "omp" || sc.executor == "seqtsm" || sc.executor == "omptsm")) {
        sc.topLevels = int(r.below(5)) - 1;   // the periodic four-call sequence with the top-tree executor staged (applyStaging)
        sc.upper = 1; sc.upperDefault = false;
    }
    if (numeric) sc.upper = sc.isPeriodic() ? 1 : 2;   // the shipped floating-point kernels hold operators for the documented working levels only
    if (sc.upper == 2 && r.chance(0.5)) sc.upperDefault = true;   // TbfDefaultLastLevel through the constructors' default argument
    sc.threadsCtor = 1 + int(r.below(16));
    sc.threadsExec = sc.threadsCtor;
    sc.ctorWithKernel = r.chance(0.4);
    if (prop != "C18" && r.chance(0.25)) sc.threadsExec = 1 + int(r.below(16));

    // the top-tree executors state "level 1 holds at least one group" as an assertion: an empty side is outside their domain
    const bool emptySide = sc.isTsm() && (sc.src.empty() || sc.tgt.empty());
    HistOp full; full.op = "execute"; full.flags = F_ALL;
    bool topSequence = false;
    const char* forceTop = getenv("TBFSIM_FORCE_TOP");
    if (sc.isPeriodic() && sc.height >= 2 && prop != "C12" && prop != "C13" && sc.kernel != "unif" && !emptySide && (r.chance(0.6) || forceTop)) {
        // the documented periodic sequence: bottom-to-top, top tree, transfer, top-to-bottom
        sc.topLevels = int(r.below(5)) - 1;
        if (forceTop) sc.topLevels = atoi(forceTop);
        sc.upper = 1; sc.upperDefault = false;
        HistOp a = full, t, b = full, c = full;
        a.flags = F_P2M | F_M2M; t.op = "top"; t.flags = F_ALL; b.flags = F_M2L | F_P2P; c.flags = F_L2L | F_L2P;
        sc.history = {a, t, b, c};
        if (r.chance(0.15)) {
            // the top-tree executor called several times with arbitrary non-empty subsets of its three flags (the twin does the same):
            // e.g. a transfer-only call on a fresh object, or a downward pass before any upward pass
            sc.history = {a};
            const int calls = 1 + int(r.below(3));
            for (int q = 0; q < calls; ++q) { HistOp tq = t; tq.flags = (1 + int(r.below(7))) << 2; sc.history.push_back(tq); }   // bits M2M=4, M2L=8, L2L=16
            sc.history.push_back(b); sc.history.push_back(c);
        }
        topSequence = true;
    }
    // move / rebuild / (query) / execute histories: C13's workload, and a share of C02's and C15's (an executor that is reused
    // after a rebuild, lookups before and after a rebuild)
    const bool rebuildHistory = !topSequence && (prop == "C13" || ((prop == "C02" || prop == "C15" || prop == "C09") && !numeric
                                  && (sc.executor == "seq" || sc.executor == "omp" || sc.executor == "seqtsm" || sc.executor == "omptsm") && r.chance(0.15)));
    if (topSequence) {
        // a share of the periodic sequences runs on a REBUILT tree: everything moved (into the lowest-index cell of a level, into one
        // leaf, or anywhere), rebuild, then the four calls -- the top-tree executor reads the upper levels that rebuild() re-created
        if ((prop == "C02" || prop == "C15") && !numeric && r.chance(0.3)
            && (sc.executor == "seq" || sc.executor == "omp" || sc.executor == "seqtsm" || sc.executor == "omptsm")) {
            HistOp mv; mv.op = "move";
            const int km = int(r.below(4)) % 3;   // 0 (twice as likely): into the lowest-index cell of a level; 1: into one leaf; 2: anywhere
            const int lvl = 1 + int(r.below(uint64_t(sc.height - 1)));
            const long cells = 1L << (sc.height - 1);
            const std::array<double, 3> leafAt{{double(r.below(uint64_t(cells))), double(r.below(uint64_t(cells))), double(r.below(uint64_t(cells)))}};
            for (int t = 0; t < (sc.isTsm() ? 2 : 1); ++t) {
                const auto& cur = t == 0 ? sc.src : sc.tgt;
                for (size_t i = 0; i < cur.size(); ++i) {
                    MoveRec m; m.tree = t; m.index = long(i);
                    for (int d = 0; d < 3; ++d) {
                        const double u = km == 0 ? r.unit() / double(1L << lvl) : (km == 1 ? (leafAt[size_t(d)] + r.unit()) / double(cells) : r.unit());
                        const double corner = sc.centre[size_t(d)] + sc.width[size_t(d)] * (-1.0 / 2.0);
                        m.pos[size_t(d)] = clampToBox(corner + std::min(1.0, std::max(0.0, u)) * sc.width[size_t(d)], corner, sc.width[size_t(d)]);
                    }
                    mv.moves.push_back(m);
                }
            }
            HistOp rb; rb.op = "rebuild";
            sc.history.insert(sc.history.begin(), rb);
            sc.history.insert(sc.history.begin(), mv);
        }
    } else if (!rebuildHistory && (prop == "C03" || prop == "C02" || prop == "C15" || prop == "C09")) {
        const int hk = int(r.below(10));
        if (prop != "C09" && !numeric && r.chance(0.1)) {
            // one executor object reused for 2-4 calls with arbitrary flag sets (the sequential twin runs the same calls): whatever an
            // executor remembers from one call to the next must not change what a later call does
            const int calls = 2 + int(r.below(3));
            for (int c = 0; c < calls; ++c) {
                HistOp e = full;
                const int pick = int(r.below(6));
                e.flags = pick == 0 ? F_ALL : (pick == 1 ? (F_P2M | F_M2M | F_M2L) : (pick == 2 ? (F_M2L | F_L2L | F_L2P) : (pick == 3 ? F_M2L : int(1 + r.below(63)))));
                sc.history.push_back(e);
            }
        }
        else if (hk < 6) sc.history.push_back(full);
        else if (hk < 8) {   // documented three-stage split
            HistOp a = full, b = full, c = full;
            a.flags = F_P2M | F_M2M; b.flags = F_M2L | F_P2P; c.flags = F_L2L | F_L2P;
            sc.history = {a, b, c};
        } else if (hk == 8) { sc.history = {full, full}; }
        else { HistOp nf = full; nf.flags = F_P2P; HistOp ff = full; ff.flags = F_ALL & ~F_P2P; sc.history = {nf, ff}; }
    } else if (prop == "C18") {
        const int hk = int(r.below(12));
        if (hk < 4) sc.history.push_back(full);
        else if (hk < 6) { sc.history = {full, full}; }
        else if (hk < 9) {
            // incomplete or repeated stage sets: the per-operator counts are then not symmetric (P2M != L2P, M2M != L2L)
            static const int sets[] = {F_P2M | F_M2M, F_P2M | F_M2M | F_M2L, F_P2M, F_M2L | F_P2P, F_L2L | F_L2P, F_P2P, F_L2P, F_M2M, F_ALL & ~F_L2P, F_ALL & ~F_P2M};
            const int nb = 1 + int(r.below(3));
            sc.history.clear();
            for (int i = 0; i < nb; ++i) { HistOp o = full; o.flags = sets[r.below(10)]; sc.history.push_back(o); }
        }
        else {   // documented three-stage split
            HistOp a = full, b = full, c = full;
            a.flags = F_P2M | F_M2M; b.flags = F_M2L | F_P2P; c.flags = F_L2L | F_L2P;
            sc.history = {a, b, c};
        }
        if (sc.history.size() > 1 && r.chance(0.5)) {
            // the user changes the number of threads between the calls (omp_set_num_threads)
            for (size_t i = 1; i < sc.history.size(); ++i) if (r.chance(0.7)) sc.history[i].threads = 1 + int(r.below(16));
        }
    } else if (rebuildHistory) {
        // cycles of  move -> rebuild -> (execute)
        if (r.chance(0.5)) sc.history.push_back(full);
        const int cycles = 1 + int(r.below(3));
        std::vector<std::array<double, 3>> cur[2] = {sc.src, sc.tgt};
        const long cells = 1L << (sc.height - 1);
        for (int c = 0; c < cycles; ++c) {
            HistOp mv; mv.op = "move";
            int kindMv = int(r.below(9));
            // kind 8: compensating moves -- the particles of two leaves go to two free leaves such that the first leaf, the last leaf, the
            // number of leaves and the SUM of the leaf indexes all stay what they were, while the set of parents changes (anything that
            // recognises "nothing changed" from such summaries is wrong here).  Morton index order of the library: x is the high bit of a triplet.
            std::map<long, std::array<double, 3>> relocate;   // old leaf index -> unit-cube position of the new leaf's centre
            if (kindMv == 8) {
                kindMv = 5;   // unless a compensating pair is found below: rebuild without moving
                if (sc.ordering != "hilbert" && sc.height >= 3 && sc.height <= 8) {
                    auto enc = [&](long x, long y, long z) { long idx = 0; for (int b = 0; b < sc.height - 1; ++b) idx |= (((x >> b) & 1L) << (3 * b + 2)) | (((y >> b) & 1L) << (3 * b + 1)) | (((z >> b) & 1L) << (3 * b)); return idx; };
                    auto dec = [&](long idx, long c[3]) { c[0] = c[1] = c[2] = 0; for (int b = 0; b < sc.height - 1; ++b) { c[0] |= ((idx >> (3 * b + 2)) & 1L) << b; c[1] |= ((idx >> (3 * b + 1)) & 1L) << b; c[2] |= ((idx >> (3 * b)) & 1L) << b; } };
                    std::set<long> occ;
                    for (const auto& q : cur[0]) {
                        long c[3];
                        for (int d = 0; d < 3; ++d) {
                            const double corner = sc.centre[size_t(d)] + sc.width[size_t(d)] * (-1.0 / 2.0);
                            c[d] = std::min(cells - 1, std::max(0L, long((q[size_t(d)] - corner) / (sc.width[size_t(d)] / double(cells)))));
                        }
                        occ.insert(enc(c[0], c[1], c[2]));
                    }
                    if (occ.size() >= 4) {
                        std::vector<long> inner(std::next(occ.begin()), std::prev(occ.end()));
                        const long lo = *occ.begin(), hi = *occ.rbegin();
                        for (int attempt = 0; attempt < 60 && relocate.empty(); ++attempt) {
                            const long a = inner[r.below(inner.size())], b = inner[r.below(inner.size())];
                            const long dlt = 1 + long(r.below(24));
                            if (a >= b) continue;
                            const long na = a + dlt, nb = b - dlt;
                            if (na == nb || na <= lo || na >= hi || nb <= lo || nb >= hi || occ.count(na) || occ.count(nb)) continue;
                            if ((na >> 3) == (a >> 3) && (nb >> 3) == (b >> 3)) continue;   // the parents must change
                            long ca[3], cb[3];
                            dec(na, ca); dec(nb, cb);
                            relocate[a] = {{(double(ca[0]) + 0.5) / double(cells), (double(ca[1]) + 0.5) / double(cells), (double(ca[2]) + 0.5) / double(cells)}};
                            relocate[b] = {{(double(cb[0]) + 0.5) / double(cells), (double(cb[1]) + 0.5) / double(cells), (double(cb[2]) + 0.5) / double(cells)}};
                            kindMv = 8;
                            if (r.chance(0.7)) sc.blockSize = 1000000;   // one group per level: its first leaf, last leaf and leaf count are those of the tree
                        }
                    }
                }
            }
            auto leafIndexOf = [&](const std::array<double, 3>& q) {
                long idx = 0;
                for (int b = 0; b < sc.height - 1; ++b) for (int d = 0; d < 3; ++d) {
                    const double corner = sc.centre[size_t(d)] + sc.width[size_t(d)] * (-1.0 / 2.0);
                    const long c = std::min(cells - 1, std::max(0L, long((q[size_t(d)] - corner) / (sc.width[size_t(d)] / double(cells)))));
                    idx |= ((c >> b) & 1L) << (3 * b + (2 - d));
                }
                return idx;
            };
            const int mvCornerLevel = 1 + int(r.below(uint64_t(sc.height > 1 ? sc.height - 1 : 1)));
            for (int t = 0; t < (sc.isTsm() ? 2 : 1); ++t) {
                if (cur[t].empty()) continue;
                const std::array<double, 3> gather{{r.unit(), r.unit(), r.unit()}};
                const long victimLeaf[3] = {long(r.below(uint64_t(cells))), long(r.below(uint64_t(cells))), long(r.below(uint64_t(cells)))};
                for (size_t i = 0; i < cur[t].size(); ++i) {
                    std::array<double, 3> u;   // unit-cube coordinates of the new position
                    bool moved = true;
                    for (int d = 0; d < 3; ++d) {
                        const double corner = sc.centre[size_t(d)] + sc.width[size_t(d)] * (-1.0 / 2.0);
                        u[size_t(d)] = (cur[t][i][size_t(d)] - corner) / sc.width[size_t(d)];
                    }
                    switch (kindMv) {
                        case 0: if (!r.chance(0.3)) { moved = false; break; } for (int d = 0; d < 3; ++d) u[size_t(d)] += (r.unit() - 0.5) * 0.2 / double(cells); break;   // jitter
                        case 1: if (!r.chance(0.3)) { moved = false; break; } for (int d = 0; d < 3; ++d) u[size_t(d)] = r.unit(); break;                                  // jump
                        case 2: for (int d = 0; d < 3; ++d) u[size_t(d)] = (std::floor(gather[size_t(d)] * double(cells)) + r.unit()) / double(cells); break;             // all into one leaf
                        case 3: {                                                                                                                                            // empty one leaf
                            bool in = true;
                            for (int d = 0; d < 3; ++d) if (long(std::floor(u[size_t(d)] * double(cells))) != victimLeaf[d]) in = false;
                            if (!in && !r.chance(0.05)) { moved = false; break; }
                            for (int d = 0; d < 3; ++d) u[size_t(d)] = r.unit();
                            break;
                        }
                        case 4: if (!r.chance(0.5)) { moved = false; break; } for (int d = 0; d < 3; ++d) u[size_t(d)] = double(r.below(uint64_t(cells + 1))) / double(cells); break;  // onto faces
                        case 8: {
                            auto it = (t == 0) ? relocate.find(leafIndexOf(cur[t][i])) : relocate.end();
                            if (it == relocate.end()) { moved = false; break; }
                            u = it->second;
                            break;
                        }
                        case 7: for (int d = 0; d < 3; ++d) u[size_t(d)] = r.unit() / double(1L << mvCornerLevel); break;                                             // everything into the lowest-index cell of a level
                        case 5: moved = false; break;                                                                                                                        // rebuild without moving
                        default: if (i != 0) { moved = false; break; } for (int d = 0; d < 3; ++d) u[size_t(d)] = r.unit(); break;                                          // a single particle
                    }
                    if (!moved) continue;
                    MoveRec m; m.tree = t; m.index = long(i);
                    for (int d = 0; d < 3; ++d) {
                        const double corner = sc.centre[size_t(d)] + sc.width[size_t(d)] * (-1.0 / 2.0);
                        const double uu = std::min(1.0, std::max(0.0, u[size_t(d)]));
                        m.pos[size_t(d)] = sc.isFloat() ? clampToBoxF(corner + uu * sc.width[size_t(d)], float(sc.centre[size_t(d)]), float(sc.width[size_t(d)]))
                                                        : clampToBox(corner + uu * sc.width[size_t(d)], corner, sc.width[size_t(d)]);
                    }
                    cur[t][i] = m.pos;
                    mv.moves.push_back(m);
                }
            }
            sc.history.push_back(mv);
            HistOp rb; rb.op = "rebuild";
            sc.history.push_back(rb);
            if (r.chance(0.65)) { HistOp e = full; if (r.chance(0.2)) e.flags = F_P2P; sc.history.push_back(e); }
        }
    } else {
        sc.history.push_back(full);
    }
    // ---- scale scenarios (seed residues 1 and 2 modulo 4096; the batch driver forces one of each per batch) ----
    const int scale = (prop == "C02" || prop == "C03" || prop == "C15" || prop == "C18") ? int(seed & 4095) : 0;
    if (prop == "C09" && ((seed & 4095) == 1 || (seed & 4095) == 2)) {   // four per batch (indices 0, 1, 3, 4): what a split of such a list loses depends on its exact length
        // dense target/source scale scenario: every leaf of a height-5 tree occupied on both sides, one group per level, more
        // threads than target groups: a single (target group, source group) pair carries > 65536 leaf-to-leaf interactions
        sc.ordering = "morton"; sc.kernel = "weight"; sc.executor = r.chance(0.9) ? "omptsm" : "seqtsm";
        sc.upper = 2; sc.upperDefault = false; sc.topLevels = -2; sc.oneGroupPerParent = false;
        sc.height = 5;
        for (int d = 0; d < 3; ++d) { sc.width[size_t(d)] = 1.0; sc.centre[size_t(d)] = 0.5; }
        sc.src.clear(); sc.tgt.clear();
        const long cells = 16;
        for (long x = 0; x < cells; ++x) for (long y = 0; y < cells; ++y) for (long z = 0; z < cells; ++z) {
            if (!r.chance(0.995)) continue;   // nearly full: the interaction count is not a round number
            sc.src.push_back({{(double(x) + 0.25 + 0.5 * r.unit()) / double(cells), (double(y) + 0.5) / double(cells), (double(z) + 0.5) / double(cells)}});
            sc.tgt.push_back({{(double(x) + 0.5) / double(cells), (double(y) + 0.25 + 0.5 * r.unit()) / double(cells), (double(z) + 0.5) / double(cells)}});
        }
        sc.blockSize = 10000000;
        sc.threadsCtor = sc.threadsExec = 3 + int(r.below(6));
        HistOp p2p = full; p2p.flags = F_P2P;
        sc.history.clear();
        sc.history.push_back(r.chance(0.5) ? p2p : full);
        toBox(sc, sc.src); toBox(sc, sc.tgt);
    }
    if (scale == 3 && (prop == "C18" || prop == "C03" || prop == "C02")) {
        // very many groups per level: block size 1 with more than a thousand occupied leaves (search structures over the group lists)
        sc.ordering = "morton";
        sc.kernel = (prop == "C18") ? "counter_weight" : "weight";
        sc.executor = r.chance(0.8) ? "seq" : "omp";
        sc.upper = 2; sc.upperDefault = false; sc.topLevels = -2; sc.oneGroupPerParent = r.chance(0.3);
        sc.tgt.clear(); sc.src.clear();
        for (int d = 0; d < 3; ++d) { sc.width[size_t(d)] = 1.0; sc.centre[size_t(d)] = 0.5; }
        sc.threadsCtor = sc.threadsExec = 1 + int(r.below(8));
        sc.height = 5;
        const long cells = 16, want = 1100 + long(r.below(500));
        std::set<long> used;
        while (long(used.size()) < want) used.insert(long(r.below(uint64_t(cells * cells * cells))));
        for (long c : used) {
            const long x = c / (cells * cells), y = (c / cells) % cells, z = c % cells;
            sc.src.push_back({{(double(x) + 0.5) / double(cells), (double(y) + 0.5) / double(cells), (double(z) + 0.5) / double(cells)}});
        }
        sc.blockSize = 1;
        sc.history.clear();
        sc.history.push_back(full);
        toBox(sc, sc.src);
    }
    if (scale == 1 || scale == 2) {
        sc.ordering = "morton";
        sc.kernel = (prop == "C18") ? "counter_weight" : "weight";
        sc.executor = r.chance(0.7) ? "omp" : "seq";
        sc.upper = 2; sc.upperDefault = false; sc.topLevels = -2;
        sc.tgt.clear(); sc.src.clear();
        sc.oneGroupPerParent = false;
        for (int d = 0; d < 3; ++d) { sc.width[size_t(d)] = 1.0; sc.centre[size_t(d)] = 0.5; }
        sc.threadsCtor = sc.threadsExec = 1 + int(r.below(8));
        HistOp p2p = full; p2p.flags = F_P2P;
        if (scale == 1) {
            // many leaves in one group: more than 2^15 elements per group (narrow index types in the interaction records)
            sc.height = 7;
            const long cells = 64, want = 34000 + long(r.below(8000));
            std::set<long> used;
            while (long(used.size()) < want) used.insert(long(r.below(uint64_t(cells * cells * cells))));
            for (long c : used) {
                const long x = c / (cells * cells), y = (c / cells) % cells, z = c % cells;
                sc.src.push_back({{(double(x) + 0.5) / double(cells), (double(y) + 0.5) / double(cells), (double(z) + 0.5) / double(cells)}});
            }
            // variant (seed bit 12; a batch forces both): one group per level / several groups of thousands of cells
            { static const long one[] = {10000000, 40000}; static const long many[] = {12000, 5000, 9000}; sc.blockSize = ((seed >> 12) & 1) ? many[r.below(3)] : one[r.below(2)]; }
            sc.history.clear();
            sc.history.push_back(((!plainFlavour || r.chance(0.5)) && prop != "C18") ? p2p : full);
        } else {
            // crowded leaves: particle-pair counts beyond 2^31 in a single near-field call
            sc.height = 2 + int(r.below(2));
            if (prop == "C18") sc.height = 3;   // the leaf operators (P2M, L2P) must run on the crowded leaves: their counters are per leaf, not per call
            const long cells = 1L << (sc.height - 1);
            const long nA = 46500 + long(r.below(6000)), nB = 46500 + long(r.below(6000));
            const long ax = long(r.below(uint64_t(cells - 1)));
            for (long i = 0; i < nA + nB; ++i) {
                const long cx = (i < nA) ? ax : ax + 1;
                sc.src.push_back({{(double(cx) + r.unit()) / double(cells), r.unit() / double(cells), r.unit() / double(cells)}});
            }
            sc.blockSize = r.chance(0.5) ? 1 : 1000000;
            sc.history.clear();
            sc.history.push_back((r.chance(0.5) && prop != "C18") ? p2p : full);
        }
        toBox(sc, sc.src);
    }
    applySchedule(sc, 0, plainFlavour);
    return sc;
}

}  // namespace tbfsim
