#!/usr/bin/env python3
"""Mutation campaign (sensitivity measurement, not a registered check).

Generates small syntactic mutants of the executor / tree / counter sources in a scratch copy of /repo (outside /repo and /verif),
rebuilds the plain simulator against the copy and runs the plain-flavour quick checks with a reduced number of scenarios.
A mutant is *killed* if some check exits 1 (violation) or the build fails to compile (then it is not a valid mutant and is
counted separately); *survived* otherwise.  Survivors are listed for manual triage (many are equivalent mutants: assertions,
dead branches, operators that cannot differ on reachable values).

usage: tools/mutation_campaign.py [--sample N] [--seed S] [--seeds-per-check K] [--out FILE]
       tools/mutation_campaign.py --survivors-of OLD.md [--with-asan] --out FILE     (re-tests only the survivors listed in an earlier
       result file against the current checks; --with-asan also builds the sanitizer flavour and runs C15 without its valgrind pass)
"""
import argparse, os, random, re, shutil, subprocess, sys, json, time

ROOT = os.path.dirname(os.path.dirname(os.path.abspath(__file__)))
SCR = "/var/tmp/tbfsim_mutcamp_repo"
PRISTINE = "/var/tmp/tbfsim_mutcamp_pristine"   # private copy of /repo taken at start: /repo itself may be patched temporarily by other tools meanwhile
BLD = "/var/tmp/tbfsim_mutcamp_build"
FILES = [
    "src/algorithms/openmp/tbfopenmpalgorithm.hpp", "src/algorithms/openmp/tbfopenmpalgorithmtsm.hpp",
    "src/algorithms/sequential/tbfalgorithm.hpp", "src/algorithms/sequential/tbfalgorithmtsm.hpp",
    "src/algorithms/sequential/tbfgroupkernelinterface.hpp", "src/algorithms/tbfalgorithmutils.hpp",
    "src/core/tbftree.hpp", "src/core/tbfparticlescontainer.hpp", "src/core/tbfparticlesorter.hpp",
    "src/spacial/tbfmortonspaceindex.hpp", "src/kernels/counterkernels/tbfinteractioncounter.hpp",
    "src/algorithms/smspecx/tbfsmspecxalgorithm.hpp", "src/algorithms/smspecx/tbfsmspecxalgorithmtsm.hpp",
    "src/algorithms/smstarpu/tbfsmstarpualgorithm.hpp", "src/algorithms/smstarpu/tbfsmstarpualgorithmtsm.hpp",
    "src/algorithms/periodic/tbfalgorithmperiodictoptree.hpp",
]
CHECKS = ["C02", "C03", "C09", "C12", "C13", "C18"]

def mutants_of(path, text):
    out = []
    lines = text.split("\n")
    for i, l in enumerate(lines):
        st = l.strip()
        if not st or st.startswith("//") or st.startswith("#include") or st.startswith("template") or "assert(" in l or "static_assert" in l or st.startswith("using ") or "operator<<" in l:
            continue
        def add(new, what):
            if new != l: out.append((path, i, l, new, what))
        # relational operators (not templates, not shifts, not stream operators)
        if not st.startswith("#pragma"):
            for m in re.finditer(r"(?<![<>=!\-+&|])(<=|>=|==|!=)(?![=>])", l):
                rep = {"<=": "<", ">=": ">", "==": "!=", "!=": "=="}[m.group(1)]
                add(l[:m.start()] + rep + l[m.end():], "rel %s->%s" % (m.group(1), rep))
            for m in re.finditer(r"(?<=[\w\)\] ]) (<|>) (?=[\w\(\-])", l):
                if "template" in l or "<<" in l or ">>" in l or "std::" in l[max(0, m.start() - 30):m.start()] and "::" in l[m.start():m.start() + 5]:
                    continue
                rep = {"<": "<=", ">": ">="}[m.group(1)]
                add(l[:m.start(1)] + rep + l[m.end(1):], "rel %s->%s" % (m.group(1), rep))
            # off-by-one constants
            for m in re.finditer(r"([+\-]) ?1\b(?!\.)", l):
                add(l[:m.start()] + l[m.end():], "drop %s1" % m.group(1))
            for m in re.finditer(r"-2\b", l):
                add(l[:m.start()] + "-1" + l[m.end():], "-2 -> -1")
            # logical operators
            for m in re.finditer(r"&&", l):
                add(l[:m.start()] + "||" + l[m.end():], "&& -> ||")
        else:
            # task pragmas: dependency and data-sharing clauses
            for m in re.finditer(r"depend\(in:[^)]*\)\s*", l):
                add(l[:m.start()] + l[m.end():], "drop depend(in)")
            for m in re.finditer(r"depend\(commute:", l):
                add(l[:m.start()] + "depend(in:" + l[m.end():], "commute -> in")
            m = re.search(r"firstprivate\(([^)]*)\)", l)
            if m:
                vars_ = [v.strip() for v in m.group(1).split(",")]
                for v in vars_:
                    rest = [x for x in vars_ if x != v]
                    if rest:
                        add(l[:m.start()] + "firstprivate(" + ", ".join(rest) + ")" + l[m.end():], "firstprivate drop " + v)
        # Specx / StarPU access modes
        if "SpCommutativeWrite(" in l:
            k = l.index("SpCommutativeWrite(")
            add(l[:k] + "SpRead(" + l[k + len("SpCommutativeWrite("):], "SpCommutativeWrite -> SpRead (first)")
        if "starpu_data_access_mode(STARPU_RW|STARPU_COMMUTE)" in l and "modes[" not in l:
            add(l.replace("starpu_data_access_mode(STARPU_RW|STARPU_COMMUTE)", "STARPU_R", 1), "RW|COMMUTE -> R")
    return out

def sh(cmd, **kw):
    return subprocess.run(cmd, stdout=subprocess.PIPE, stderr=subprocess.STDOUT, text=True, **kw)

def main():
    ap = argparse.ArgumentParser()
    ap.add_argument("--sample", type=int, default=120)
    ap.add_argument("--seed", type=int, default=12345)
    ap.add_argument("--seeds-per-check", type=int, default=1200)
    ap.add_argument("--out", default=os.path.join(ROOT, "seeded", "MUTATION.md"))
    ap.add_argument("--workers", type=int, default=8)
    ap.add_argument("--survivors-of", default=None)
    ap.add_argument("--with-asan", action="store_true")
    a = ap.parse_args()
    shutil.rmtree(PRISTINE, ignore_errors=True)
    sh(["rsync", "-a", "--exclude", "_build", "--exclude", ".git", "/repo/", PRISTINE + "/"])
    if sh(["git", "-C", "/repo", "diff", "--quiet"]).returncode != 0:
        print("/repo has uncommitted changes: refusing to take it as the pristine tree"); sys.exit(2)
    all_m = []
    for f in FILES:
        all_m += mutants_of(f, open(os.path.join(PRISTINE, f)).read())
    rnd = random.Random(a.seed)
    rnd.shuffle(all_m)
    chosen = all_m[:a.sample]
    if a.survivors_of:
        want = set()
        for l in open(a.survivors_of):
            c = [x.strip() for x in l.split("|")]
            if len(c) > 4 and c[3] == "SURVIVED":
                f, ln = c[1].rsplit(":", 1)
                want.add(("src/" + f, int(ln) - 1, c[2]))
        chosen = [m for m in all_m if (m[0], m[1], m[4]) in want]
        chosen.sort(key=lambda m: (m[0], m[1]))
    print("%d candidate mutants, %d sampled" % (len(all_m), len(chosen)), flush=True)
    shutil.rmtree(SCR, ignore_errors=True)
    rows = []
    try:
        sh(["rsync", "-a", "--delete", PRISTINE + "/", SCR + "/"])
        previous = None
        for n, (path, li, old, new, what) in enumerate(chosen):
            # restore the file of the previous mutant with a NEW modification time (rsync -a would restore the old one and make
            # would then keep the objects built from the mutated header)
            if previous:
                shutil.copyfile(os.path.join(PRISTINE, previous), os.path.join(SCR, previous))
                os.utime(os.path.join(SCR, previous), None)
            previous = path
            p = os.path.join(SCR, path)
            lines = open(p).read().split("\n")
            lines[li] = new
            open(p, "w").write("\n".join(lines))
            env = dict(os.environ, TBFSIM_REPO=SCR, TBFSIM_BUILD=BLD, TBFSIM_HANG_S="45")
            b = sh(["make", "-C", ROOT, "-j16", "BUILD=" + BLD, "REPO=" + SCR, "plain"] + (["asan"] if a.with_asan else []))
            if b.returncode != 0:
                rows.append((path, li + 1, what, "does-not-compile", "")); print(rows[-1], flush=True); continue
            verdict, by = "SURVIVED", ""
            if a.with_asan: env["TBFSIM_NO_VALGRIND"] = "1"
            for c in CHECKS + (["C15"] if a.with_asan else []):
                r = sh(["python3", os.path.join(ROOT, "tools", "check.py"), c, "--seeds", str(a.seeds_per_check if c not in ("C12", "C15") else (max(20, a.seeds_per_check // 20) if c == "C12" else max(150, a.seeds_per_check // 4))),
                        "--no-minimise", "--workers", str(a.workers), "--evidence-dir", "/var/tmp/tbfsim_mutcamp_ev", "--replay-dir", "/var/tmp/tbfsim_mutcamp_ev"], env=env)
                if r.returncode == 1:
                    k = [x for x in r.stdout.splitlines() if x.startswith("violation: ")]
                    verdict, by = "killed", c + ": " + (k[0][11:90] if k else "")
                    break
                try:
                    ev = json.load(open(os.path.join("/var/tmp/tbfsim_mutcamp_ev", c + ".json")))
                    # (not for C15: there a crash is a violation of the property itself and already decides the exit code, and the
                    # unchanged tree has a known crashing finding, K2)
                    if c != "C15" and ev["coverage"].get("crashes", 0) > 0:
                        verdict, by = "killed(crash/hang)", c + ": %d worker deaths" % ev["coverage"]["crashes"]
                        break
                except Exception:
                    pass
                if r.returncode == 2:
                    k = [x for x in r.stdout.splitlines() if x.startswith("FRAMEWORK-ERROR")]
                    verdict, by = "killed(framework-error)", c + ": " + (k[0][:90] if k else "")
                    break
            rows.append((path, li + 1, what, verdict, by)); print(rows[-1], flush=True)
    finally:
        shutil.rmtree(SCR, ignore_errors=True); shutil.rmtree(PRISTINE, ignore_errors=True); shutil.rmtree(BLD, ignore_errors=True); shutil.rmtree("/var/tmp/tbfsim_mutcamp_ev", ignore_errors=True)
    valid = [r for r in rows if r[3] != "does-not-compile"]
    killed = [r for r in valid if r[3].startswith("killed")]
    with open(a.out, "w") as f:
        f.write("# Mutation campaign\n\n%d syntactic mutants sampled (seed %d) from %d candidates in %d source files; %d compile; %d killed by the plain-flavour quick checks (%d scenarios per check), %d survived.\n\n" % (len(rows), a.seed, len(all_m), len(FILES), len(valid), len(killed), a.seeds_per_check, len(valid) - len(killed)))
        f.write("| file:line | mutation | verdict | first detection |\n|---|---|---|---|\n")
        for r in rows:
            f.write("| %s:%d | %s | %s | %s |\n" % (r[0].replace("src/", ""), r[1], r[2], r[3], r[4].replace("|", "\\|")))
    print("killed %d / %d valid" % (len(killed), len(valid)))

if __name__ == "__main__":
    main()
