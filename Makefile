# Builds the simulator in two flavours from /repo's current working tree (headers are picked up through -I and -MMD).
REPO ?= /repo
BUILD ?= /verif/build
CXX = g++
COMMON = -std=c++17 -fopenmp -I$(REPO)/src -Isim -MMD -MP -Wall -Wno-unused-parameter -Wno-sign-compare -Wno-unknown-pragmas
PLAIN_FLAGS = $(COMMON) -O2 -g -DNDEBUG
ASAN_FLAGS = $(COMMON) -O1 -g -DTBFSIM_ASAN -fsanitize=address,undefined -fsanitize-recover=address -fno-sanitize-recover=undefined -fno-omit-frame-pointer

CORE_SRC = sim/core.cpp sim/gompsim.cpp sim/probe.cpp sim/oracles.cpp sim/gen.cpp sim/recipes.cpp sim/main.cpp
WORLD_SRC = sim/w_morton.cpp sim/w_periodic.cpp sim/w_hilbert.cpp sim/w_specx.cpp sim/w_starpu.cpp sim/w_numeric.cpp
SRC = $(CORE_SRC) $(WORLD_SRC)

# content stamp of the library sources: objects are rebuilt when the CONTENT of any file under $(REPO)/src changes, even if a
# file was restored with an old modification time (cp -p, rsync -a), which would fool make's timestamp comparison
SRCHASH := $(shell find $(REPO)/src -type f -print0 2>/dev/null | sort -z | xargs -0 sha1sum 2>/dev/null | sha1sum | cut -c1-40)
SRCSTAMP = $(BUILD)/.srcstamp-$(SRCHASH)
$(SRCSTAMP):
	@mkdir -p $(BUILD); rm -f $(BUILD)/.srcstamp-*; touch $@

PLAIN_OBJ = $(patsubst sim/%.cpp,$(BUILD)/plain/%.o,$(SRC))
ASAN_OBJ = $(patsubst sim/%.cpp,$(BUILD)/asan/%.o,$(SRC))

all: plain asan
plain: $(BUILD)/tbfsim_plain
asan: $(BUILD)/tbfsim_asan

# NOTE: linked WITHOUT libgomp on purpose: -fopenmp is given at compile time only, gompsim.cpp provides the runtime.
$(BUILD)/tbfsim_plain: $(PLAIN_OBJ)
	$(CXX) -o $@ $^ -lfftw3 -lfftw3f -lpthread
$(BUILD)/tbfsim_asan: $(ASAN_OBJ)
	$(CXX) -o $@ $^ -fsanitize=address,undefined -lfftw3 -lfftw3f -lpthread

$(BUILD)/plain/w_specx.o $(BUILD)/asan/w_specx.o: EXTRA = -Isim/stubs/specx
$(BUILD)/plain/w_starpu.o $(BUILD)/asan/w_starpu.o: EXTRA = -Isim/stubs/starpu
# function-boundary scheduling points inside the shipped floating-point kernels (core.cpp: __cyg_profile_func_enter/exit)
$(BUILD)/plain/w_numeric.o $(BUILD)/asan/w_numeric.o: EXTRA = -finstrument-functions -finstrument-functions-exclude-file-list=/usr/,/verif/sim/,sim/

$(BUILD)/plain/%.o: sim/%.cpp Makefile $(SRCSTAMP)
	@mkdir -p $(dir $@)
	$(CXX) $(PLAIN_FLAGS) $(EXTRA) -c $< -o $@
$(BUILD)/asan/%.o: sim/%.cpp Makefile $(SRCSTAMP)
	@mkdir -p $(dir $@)
	$(CXX) $(ASAN_FLAGS) $(EXTRA) -c $< -o $@

# self-test binary: the same objects linked against the REAL libgomp instead of gompsim (tools/selftest_abi.sh)
REAL_OBJ = $(filter-out $(BUILD)/plain/gompsim.o,$(PLAIN_OBJ))
realgomp: $(BUILD)/tbfsim_realgomp
$(BUILD)/tbfsim_realgomp: $(REAL_OBJ)
	$(CXX) -fopenmp -o $@ $^ -lfftw3 -lfftw3f -lpthread

clean:
	rm -rf $(BUILD)

-include $(PLAIN_OBJ:.o=.d) $(ASAN_OBJ:.o=.d)
.PHONY: all plain asan realgomp clean
