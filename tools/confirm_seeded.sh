#!/bin/bash
# Confirms seeded changes independently of the agents that wrote them, in a scratch worktree outside /repo and /verif:
#   - the patch applies to /repo's HEAD, the whole project (examples + unit tests) still builds,
#   - every unit test whose binary is rebuilt by the change still passes (unchanged binaries cannot change outcome),
#   - the demonstration passes without the change and fails with it.
# usage: tools/confirm_seeded.sh <name> <dir-with-patch.diff-and-run.sh> [...]   (pairs)
set -u
WT=/var/tmp/tbfsim_seed_wt
BD=/var/tmp/tbfsim_seed_build
if [ ! -d "$WT" ]; then git -C /repo worktree add -q --detach "$WT" HEAD || exit 2; fi
git -C "$WT" checkout -q --detach "$(git -C /repo rev-parse HEAD)" && git -C "$WT" checkout -q -- .
if [ ! -f "$BD/build.ninja" ]; then
  cmake -S "$WT" -B "$BD" -G Ninja -DCMAKE_BUILD_TYPE=RelWithDebInfo -DCMAKE_CXX_FLAGS=-Wno-error -DBUILD_TESTS=ON > "$BD.configure.log" 2>&1 || { echo "configure failed"; exit 2; }
fi
ninja -C "$BD" -j ${JOBS:-10} > "$BD.base.log" 2>&1 || { echo "baseline build failed"; tail -5 "$BD.base.log"; exit 2; }
while [ $# -ge 2 ]; do
  name="$1"; dir="$2"; shift 2
  echo "=== $name"
  git -C "$WT" checkout -q -- .
  # the demo scripts locate the sources relative to their own directory (../../src) or through TBFMM_SRC / WT
  rm -rf "$WT/_seeded/$name"; mkdir -p "$WT/_seeded"; cp -r "$dir" "$WT/_seeded/$name"; ddir="$WT/_seeded/$name"
  ( cd "$ddir" && TBFMM_SRC="$WT/src" WT="$WT" bash ./run.sh > "$BD.$name.demo_without.log" 2>&1 ); rc0=$?
  if ! git -C "$WT" apply "$dir/patch.diff" 2>/dev/null && ! git -C "$WT" apply --3way "$dir/patch.diff" 2>/dev/null; then echo "$name: patch does not apply to HEAD"; continue; fi
  git -C "$WT" reset -q
  touch "$BD/.stamp"; sleep 1
  if ! ninja -C "$BD" -j ${JOBS:-10} > "$BD.$name.build.log" 2>&1; then echo "$name: BUILD FAILS with the change"; tail -5 "$BD.$name.build.log"; git -C "$WT" checkout -q -- .; continue; fi
  rebuilt=$(find "$BD/unit-tests" -maxdepth 1 -type f -name 'utest-*' -newer "$BD/.stamp" -printf '%f\n' | sort)
  nreb=$(echo "$rebuilt" | grep -c . )
  regex=$(echo "$rebuilt" | paste -sd'|' | sed 's/|/$|^/g; s/^/^/; s/$/$/')
  if [ "$nreb" -gt 0 ]; then
    ( cd "$BD" && ctest -R "$regex" -j ${JOBS:-10} --timeout 1800 > "$BD.$name.ctest.log" 2>&1 ); trc=$?
    summary=$(grep -E "tests passed|tests failed" "$BD.$name.ctest.log" | tail -1)
  else trc=0; summary="no unit-test binary changed"; fi
  ( cd "$ddir" && TBFMM_SRC="$WT/src" WT="$WT" bash ./run.sh > "$BD.$name.demo_with.log" 2>&1 ); rc1=$?
  rm -rf "$WT/_seeded/$name"
  git -C "$WT" checkout -q -- .
  echo "$name: demo without change exit=$rc0, with change exit=$rc1; rebuilt tests=$nreb; ctest exit=$trc ($summary)"
done
