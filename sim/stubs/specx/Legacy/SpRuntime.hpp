// Stub of the part of Specx's legacy API that tbfmm's Specx executors use, on top of the tbfsim scheduler.
// (deps/specx is an empty submodule in this checkout, so the real runtime cannot be built.)  Semantics encoded here,
// from Specx's documentation: tasks are inserted in sequential-consistency order; SpRead = concurrent readers,
// SpWrite = exclusive, SpCommutativeWrite = any order but mutually exclusive; the callable is copied into the task;
// worker threads have ids 1..N (SpUtils::GetThreadId()), the inserting thread has id 0 and never runs tasks;
// waitAllTasks() returns when every inserted task has finished.  Priorities are hints.
#ifndef TBFSIM_STUB_SPRUNTIME_HPP
#define TBFSIM_STUB_SPRUNTIME_HPP

#include "core.hpp"

#include <functional>
#include <tuple>
#include <utility>
#include <vector>

enum class SpSpeculativeModel { SP_NO_SPEC, SP_MODEL_1, SP_MODEL_2, SP_MODEL_3 };

struct SpPriority {
    int value;
    explicit SpPriority(int v) : value(v) {}
};

template <class T> struct SpReadAccess { const T* ptr; static constexpr int mode = tbfsim::AM_R; using Arg = const T&; };
template <class T> struct SpWriteAccess { T* ptr; static constexpr int mode = tbfsim::AM_W; using Arg = T&; };
template <class T> struct SpCommutativeAccess { T* ptr; static constexpr int mode = tbfsim::AM_C; using Arg = T&; };

template <class T> SpReadAccess<T> SpRead(const T& x) { return SpReadAccess<T>{&x}; }
template <class T> SpWriteAccess<T> SpWrite(T& x) { return SpWriteAccess<T>{&x}; }
template <class T> SpCommutativeAccess<T> SpCommutativeWrite(T& x) { return SpCommutativeAccess<T>{&x}; }

namespace SpUtils {
inline long int GetThreadId() { return (tbfsim::g_sim && tbfsim::g_sim->active) ? tbfsim::g_sim->curWorker : 0; }
inline int DefaultNumThreads() { return tbfsim::g_sim ? tbfsim::g_sim->maxThreads : 1; }
}

struct SpWorkerTeam { int nbCpu; };
struct SpWorkerTeamBuilder {
    static SpWorkerTeam TeamOfCpuWorkers() { return SpWorkerTeam{SpUtils::DefaultNumThreads()}; }
    static SpWorkerTeam TeamOfCpuWorkers(int n) { return SpWorkerTeam{n}; }
};

class SpComputeEngine {
    int nbCpu;
public:
    explicit SpComputeEngine(SpWorkerTeam team) : nbCpu(team.nbCpu < 1 ? 1 : team.nbCpu) {}
    int getNbCpuWorkers() const { return nbCpu; }
    void stopIfNotAlreadyStopped() {}
};

template <SpSpeculativeModel Model>
class SpTaskGraph {
    int nbWorkers = 1;
    bool regionOpen = false;

    void open() {
        if (regionOpen || !tbfsim::g_sim) return;
        tbfsim::NoCount noCount;
        std::vector<int> ids;
        int n = nbWorkers;
        if (tbfsim::g_sim->policy.teamShrink > 0 && n > 1) { /* a Specx team has exactly the requested size */ }
        for (int i = 1; i <= n; ++i) ids.push_back(i);
        tbfsim::g_sim->beginRegion(ids, 0, false);
        regionOpen = true;
    }

    template <class Func, class... Acc, size_t... I>
    void insert(int prio, Func&& f, std::tuple<Acc...> acc, std::index_sequence<I...>) {
        open();
        tbfsim::NoCount noCount;
        std::vector<tbfsim::Dep> deps{tbfsim::Dep{static_cast<const void*>(std::get<I>(acc).ptr), Acc::mode}...};
        typename std::decay<Func>::type callable(std::forward<Func>(f));   // Specx copies the callable into the task
        auto body = [callable = std::move(callable), acc]() mutable { callable(static_cast<typename Acc::Arg>(*std::get<I>(acc).ptr)...); };
        if (tbfsim::g_sim) tbfsim::g_sim->submit(std::function<void()>(std::move(body)), std::move(deps), prio, false);
        else body();
    }

    // split (accesses..., callable)
    template <class Tuple, size_t... I>
    void insertSplit(int prio, Tuple&& all, std::index_sequence<I...>) {
        constexpr size_t N = std::tuple_size<typename std::decay<Tuple>::type>::value;
        insert(prio, std::get<N - 1>(std::forward<Tuple>(all)), std::make_tuple(std::get<I>(all)...), std::make_index_sequence<N - 1>());
    }

public:
    SpTaskGraph() {}
    ~SpTaskGraph() { waitAllTasks(); }
    SpTaskGraph(const SpTaskGraph&) = delete;
    SpTaskGraph& operator=(const SpTaskGraph&) = delete;

    void computeOn(SpComputeEngine& ce) { nbWorkers = ce.getNbCpuWorkers(); }

    template <class... Args>
    void task(SpPriority prio, Args&&... args) {
        insertSplit(prio.value, std::forward_as_tuple(std::forward<Args>(args)...), std::make_index_sequence<sizeof...(Args) - 1>());
    }
    template <class First, class... Args, typename = typename std::enable_if<!std::is_same<typename std::decay<First>::type, SpPriority>::value>::type>
    void task(First&& first, Args&&... args) {
        insertSplit(0, std::forward_as_tuple(std::forward<First>(first), std::forward<Args>(args)...), std::make_index_sequence<sizeof...(Args)>());
    }

    void waitAllTasks() {
        if (!regionOpen || !tbfsim::g_sim) return;
        tbfsim::g_sim->waitAll();
        tbfsim::NoCount noCount;
        tbfsim::g_sim->endRegion();
        regionOpen = false;
    }
};

#endif
