// tbfsim core: seeded, single-threaded task-graph scheduler shared by the three runtime
// replacements (gompsim, Specx stub, StarPU stub).  See DESIGN.md section 3.
//
// One OS thread.  Tasks run nested on the caller's stack at scheduling points:
//   PK_CREATE  - inside task submission, after the task is registered
//   PK_YIELD   - inside probe-kernel callbacks
//   PK_WAIT    - at a completion point (taskwait / end of parallel / waitAllTasks / ...)
// Every choice is drawn from the schedule PRNG (or read from a replay decision list) and logged.
#ifndef TBFSIM_CORE_HPP
#define TBFSIM_CORE_HPP

#include <cstdint>
#include <cstddef>
#include <cstring>
#include <vector>
#include <string>
#include <map>
#include <memory>
#include <functional>

namespace tbfsim {

// ---------------------------------------------------------------------------------------------
struct Prng {
    uint64_t s[4];
    static uint64_t splitmix(uint64_t& x) {
        uint64_t z = (x += 0x9e3779b97f4a7c15ULL);
        z = (z ^ (z >> 30)) * 0xbf58476d1ce4e5b9ULL;
        z = (z ^ (z >> 27)) * 0x94d049bb133111ebULL;
        return z ^ (z >> 31);
    }
    explicit Prng(uint64_t seed = 0) { reseed(seed); }
    void reseed(uint64_t seed) { for (auto& v : s) v = splitmix(seed); }
    static uint64_t rotl(uint64_t x, int k) { return (x << k) | (x >> (64 - k)); }
    uint64_t next() {
        const uint64_t result = rotl(s[1] * 5, 7) * 9;
        const uint64_t t = s[1] << 17;
        s[2] ^= s[0]; s[3] ^= s[1]; s[1] ^= s[2]; s[0] ^= s[3];
        s[2] ^= t; s[3] = rotl(s[3], 45);
        return result;
    }
    // uniform in [0, n)
    uint64_t below(uint64_t n) { return n <= 1 ? 0 : next() % n; }
    long range(long lo, long hi) { return lo + long(below(uint64_t(hi - lo + 1))); }  // inclusive
    double unit() { return double(next() >> 11) * (1.0 / 9007199254740992.0); }
    bool chance(double p) { return p > 0 && (p >= 1 || unit() < p); }
};

inline uint64_t mix64(uint64_t h, uint64_t v) {
    h ^= v + 0x9e3779b97f4a7c15ULL + (h << 6) + (h >> 2);
    h *= 0xff51afd7ed558ccdULL;
    h ^= h >> 33;
    return h;
}

// ---------------------------------------------------------------------------------------------
enum AccessMode : int { AM_R = 0, AM_W = 1, AM_C = 2 };
enum PointKind : int { PK_CREATE = 0, PK_YIELD = 1, PK_WAIT = 2, PK_DEEP = 3 };   // PK_DEEP: function entry/exit inside instrumented library code

enum PickMode : int { PICK_FIFO = 0, PICK_LIFO = 1, PICK_UNIFORM = 2, PICK_PRIO_HIGH = 3, PICK_PRIO_LOW = 4, PICK_NB };
enum WorkerMode : int { WK_UNIFORM = 0, WK_ROUNDROBIN = 1, WK_LOWEST = 2, WK_FIXED = 3, WK_NOT_CREATOR = 4, WK_NB };

struct Policy {
    double pCreate = 0.0;      // probability of starting a task at a create point (repeated)
    double pYield = 0.0;       // same at a yield point
    double pDeep = 0.0;        // same at a function boundary inside a kernel callback (translation units built with -finstrument-functions)
    int pick = PICK_FIFO;
    int workerMode = WK_UNIFORM;
    int fixedWorker = 1;       // index into the worker list for WK_FIXED
    bool scribble = false;     // dead-stack scribble fault before the first waiting point
    int teamShrink = 0;        // the parallel region gets this many fewer threads than requested
};

struct Dep { const void* addr; int mode; };

struct Decision { int ordinal; int pick; int worker; };   // a task start: at scheduling point #ordinal, ready-set position, idle-worker position

struct ObservedAccess { const unsigned char* lo; const unsigned char* hi; int task; bool write; int what; };

struct Task {
    int id = -1;
    int parent = -1;                    // creating task (-1: the region's creator)
    std::function<void()> body;
    std::vector<Dep> deps;
    std::vector<std::pair<void*, int>> slots;   // (AddrState*, group index)
    int priority = 0;
    int state = 0;                      // 0 pending, 1 in flight, 2 done
    int worker = -1;
    int unfinishedChildren = 0;
    int waiting = 0;                    // dependency slots whose access group is not yet the current one
    uint64_t labelHash = 0;             // derived from dependency names, never from raw addresses
    std::vector<uint64_t> pred;         // happens-before predecessors (bitset over earlier ids)
    std::vector<uint64_t> mutex;        // tasks sharing a commutative group with this one
    bool createdBeforeScribble = false;
    bool ranAfterCreatorReturned = false;
    int nbCallbacks = 0;
    int firstKind = -1;                 // first kernel callback kind observed inside the task
    long firstLevel = -1;
};

struct Group { int mode; std::vector<int> tasks; int done = 0; int inflight = 0; };
struct AddrState { std::vector<Group> groups; size_t firstIncomplete = 0; int nameId = -1; };

struct Stats {
    long points[4] = {0, 0, 0, 0};
    long startedAt[4] = {0, 0, 0, 0};
    long tasks = 0;
    long maxDepth = 0;
    long inversions = 0;           // tasks started while an earlier-created task was still pending
    long overlaps = 0;             // tasks started nested inside another task
    long deferredToWait = 0;       // tasks started at a waiting point
    long ranAfterScribble = 0;
    long commutativeReordered = 0; // commutative-group member run before an earlier member
    long prioInversions = 0;
    long scribbles = 0;
    long teamSmaller = 0;
    long stuck = 0;
};

// A "region" = one execute() of a task-based executor.
class Sim {
public:
    // --- configuration (set by the harness before the region starts) ---
    Policy policy;
    Prng rng;
    bool replayMode = false;
    std::vector<Decision> replay;
    size_t replayPos = 0;
    int maxThreads = 1;                 // what omp_get_max_threads() & co. answer right now
    bool allowScribble = false;         // plain flavour only

    // --- region state ---
    bool active = false;
    std::vector<int> workerIds;         // ids that may run tasks in this region
    int creatorId = 0;                  // id answered on the submitting thread (may be outside workerIds)
    bool creatorRunsTasks = true;
    std::vector<std::unique_ptr<Task>> tasks;
    std::map<std::pair<int, const void*>, std::unique_ptr<AddrState>> addrs;
    std::vector<int> busyTaskOfWorker;  // parallel to workerIds: task id in flight, or -1
    int curTask = -1;
    int curWorker = 0;
    int depth = 0;
    int rrNext = 0;
    bool scribbled = false;
    long unfinished = 0;
    long tasksStarted = 0;              // monotonic: progress indicator for the waiting loops
    std::vector<int> readyVec;          // pending tasks with waiting == 0, ascending id (commutative exclusion is checked at pick time)
    bool hasCommutative = false;
    size_t firstPending = 0;
    int creatorDepthMarker = 0;         // bumped by the harness hooks when creator frames return (informational)

    // --- logs ---
    std::vector<Decision> decisions;
    uint64_t eventHash = 0;
    long steps = 0;
    Stats stats;
    std::vector<ObservedAccess> observed;
    std::vector<std::pair<int, int>> nestPairs;   // (task started, task it was nested in)
    std::vector<std::pair<int, int>> invPairs;    // (task started, earliest-created task still pending)
    std::vector<std::string> errors;    // framework-level errors (unsupported construct, stuck graph)

    // names for dependency addresses (registered by the harness; never derived from raw addresses)
    std::map<const void*, int> addrName;
    std::vector<std::string> names;

    void beginRegion(const std::vector<int>& inWorkerIds, int inCreatorId, bool inCreatorRunsTasks);
    void endRegion();                   // requires everything complete
    void resetLogs();

    int  submit(std::function<void()> body, std::vector<Dep> deps, int priority, bool undeferred);
    void point(int kind);
    void waitChildren();                // taskwait of the current task
    void waitAll();                     // every task of the region
    void scribbleStack();               // the dead-stack scribble fault, callable by the harness between library calls

    int  nameOf(const void* addr);
    void registerName(const void* addr, const std::string& name);
    void clearNames();

    void noteCallback(int kind, long level);
    void noteAccess(const void* lo, size_t bytes, bool write, int what);

    bool hb(int a, int b) const;        // a happens-before b by declaration
    bool mutexed(int a, int b) const;
    std::string taskLabel(int id) const;

private:
    bool ready(const Task& t) const;
    bool blockedByMutex(const Task& t) const;
    void makeReady(int id);
    void runTask(int id, int workerIndex, int kind);
    int  chooseTask(const std::vector<int>& readySet);
    int  chooseWorker(const std::vector<int>& idle);
    void scribble();
};

extern Sim* g_sim;

// >0 while harness code (simulator, probes) runs: heap blocks allocated meanwhile are not counted as library blocks
extern int g_noCount;
struct NoCount { int saved; NoCount() : saved(g_noCount) { g_noCount = saved + 1; } ~NoCount() { g_noCount = saved; } };

inline bool simActive() { return g_sim && g_sim->active; }
inline void yieldPoint() { if (g_sim && g_sim->active) g_sim->point(PK_YIELD); }

// true while an instrumented library routine runs inside a kernel callback of a simulated task and the run's policy asks for
// preemption at function boundaries (set by Probe around the wrapped kernel's operators)
extern bool g_deep;
struct DeepScope {
    bool saved;
    DeepScope() : saved(g_deep) { g_deep = g_sim && g_sim->active && g_sim->policy.pDeep > 0; }
    ~DeepScope() { g_deep = saved; }
};

}  // namespace tbfsim

#endif
