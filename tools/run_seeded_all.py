#!/usr/bin/env python3
"""Regression of the checks against the stored seeded changes: applies each /verif/seeded/<id>/patch.diff to /repo, runs the check of
the property it breaks (quick tier, reduced seeds), restores /repo, and writes /verif/seeded/RESULTS.md.
usage: tools/run_seeded_all.py [--seeds N] [id ...]"""
import json, os, subprocess, sys, time
ROOT = os.path.dirname(os.path.dirname(os.path.abspath(__file__)))
def sh(*a, **k): return subprocess.run(a, stdout=subprocess.PIPE, stderr=subprocess.STDOUT, text=True, **k)
def main():
    args = sys.argv[1:]
    seeds = "1500"
    if "--seeds" in args:
        i = args.index("--seeds"); seeds = args[i + 1]; del args[i:i + 2]
    ids = args or sorted(d for d in os.listdir(os.path.join(ROOT, "seeded")) if os.path.isdir(os.path.join(ROOT, "seeded", d)))
    if sh("git", "-C", "/repo", "diff", "--quiet").returncode != 0:
        print("/repo has uncommitted changes"); sys.exit(2)
    rows = []
    for sid in ids:
        d = os.path.join(ROOT, "seeded", sid)
        meta = json.load(open(os.path.join(d, "meta.json")))
        prop = meta["breaks_property"]
        r = sh("git", "-C", "/repo", "apply", os.path.join(d, "patch.diff"))
        if r.returncode != 0: r = sh("git", "-C", "/repo", "apply", "--3way", os.path.join(d, "patch.diff"))
        if r.returncode != 0:
            rows.append((sid, prop, "patch does not apply", "")); sh("git", "-C", "/repo", "checkout", "--", "."); continue
        sh("git", "-C", "/repo", "reset", "-q")
        try:
            t0 = time.time()
            n = seeds if prop != "C12" else str(max(20, int(seeds) // 15))
            if prop == "C15": n = str(max(100, int(seeds) // 4))
            c = sh("python3", os.path.join(ROOT, "tools", "check.py"), prop, "--seeds", n, "--no-minimise", "--evidence-dir", "/var/tmp/tbfsim_seed_ev", "--replay-dir", "/var/tmp/tbfsim_seed_ev")
            keys = [l.split(" -- ")[0].replace("violation: ", "") for l in c.stdout.splitlines() if l.startswith("violation: ")]
            rows.append((sid, prop, "DETECTED (exit %d, %.0fs)" % (c.returncode, time.time() - t0) if c.returncode == 1 else "exit %d" % c.returncode, "; ".join(keys[:4])))
        finally:
            sh("git", "-C", "/repo", "checkout", "--", ".")
        print(rows[-1], flush=True)
    sh("rm", "-rf", "/var/tmp/tbfsim_seed_ev")
    with open(os.path.join(ROOT, "seeded", "RESULTS.md"), "w") as f:
        f.write("# Seeded changes against the checks\n\nWritten by tools/run_seeded_all.py (quick tier, %s scenarios per check; /repo at %s).\n\n| change | breaks | outcome of the property's check | first violation keys |\n|---|---|---|---|\n" % (seeds, sh("git", "-C", "/repo", "rev-parse", "--short", "HEAD").stdout.strip()))
        for r in rows: f.write("| %s | %s | %s | %s |\n" % r)
    bad = [r for r in rows if not r[2].startswith("DETECTED")]
    sys.exit(1 if bad else 0)
if __name__ == "__main__":
    main()
