#!/usr/bin/env python3
"""Orchestration of the tbfsim checks (no randomness of its own: every choice comes from VERIF_SEED through the workers).

  python3 tools/check.py <PROP> [--tier quick|thorough] [--seeds N] [--workers W]
  python3 tools/check.py <PROP> --replay <file>

exit 0: property held on everything explored (KNOWN-FINDING lines for listed findings)
exit 1: `VIOLATION property=<id> replay=<path>` for every violation that is not a listed finding
exit 2: framework error (build failure, non-reproducible violation, unsupported construct)
"""
import argparse, collections, json, os, re, subprocess, sys, time, fnmatch, hashlib, select, shutil

ROOT = os.path.dirname(os.path.dirname(os.path.abspath(__file__)))
BUILD = os.environ.get("TBFSIM_BUILD", os.path.join(ROOT, "build"))
REPLAYS = os.path.join(ROOT, "replays")
EVIDENCE = os.path.join(ROOT, "evidence")

# ------------------------------------------------------------------------------------------------------------
# which violation classes belong to which property (DESIGN.md section 5)
def belongs(prop, v, run):
    cls, site, where, ex = v["cls"], v["site"], v.get("where", "run"), run.get("executor", "")
    task_based = ex not in ("seq", "seqtsm")
    if prop == "C02":
        return cls == "argcheck"
    if prop == "C03":
        if where != "run" or not task_based:
            return False
        if cls in ("value", "race", "quiescence", "symbolic-changed"):
            return True
        if cls == "crash":
            return v.get("stage") == "task-execute"
        if cls.startswith("asan:"):
            return cls in ("asan:stack-use-after-return", "asan:stack-use-after-scope", "asan:heap-use-after-free") and "task-execute" in v.get("detail", "")
        return False
    if prop == "C09":
        if not ex.endswith("tsm"):
            return False
        # exactly-once is the sum component; the position-code-sensitive component belongs to C02's clauses
        # (rebuild histories: what a target holds after rebuild + execute must be preserved results + exactly one more full interaction)
        return (cls == "ref" and site in ("result.sum", "particles-missing")) or (cls == "calllog" and site == "P2PInner.tsm") or cls in ("writeset", "symbolic-changed", "rebuild:execute-after")
    if prop == "C12":
        return cls in ("staged-vs-full", "writeset", "calllog", "symbolic-changed")
    if prop == "C13":
        return cls.startswith("rebuild")
    if prop == "C15":
        return cls.startswith("asan:") or cls.startswith("valgrind:") or cls in ("crash", "abort", "ubsan", "assert", "hang")
    if prop == "C18":
        return cls in ("counter", "counter-result", "kernel-sharing", "wrapper-args")
    return False

FLAVOURS = {  # (quick, thorough)
    "C02": (["plain"], ["plain"]),
    "C03": (["plain"], ["plain", "asan"]),
    "C09": (["plain"], ["plain"]),
    "C12": (["plain"], ["plain"]),
    "C13": (["plain"], ["plain"]),
    "C15": (["asan"], ["asan"]),
    "C18": (["plain"], ["plain"]),
}
SEEDS = {  # number of scenarios (each runs schedulesPer(prop, tier) schedules): (quick, thorough)
    "C02": (10000, 200000), "C03": (8000, 100000), "C09": (10000, 200000), "C12": (600, 6000), "C13": (20000, 400000),
    "C15": (1000, 30000), "C18": (10000, 200000),
}

def crash_site(c):
    """stage, plus the library location when the dying process could name it (assertion / sanitizer abort)"""
    m = re.search(r" at ((?:algorithms|core|containers|kernels|spacial|utils)/[\w/.]+:\d+)", c.get("what", "") or "")
    return c["stage"] + ("@" + m.group(1) if m else "")

def vkey(run, v):
    return "%s|%s|%s|%s" % (run.get("executor", "?"), run.get("ordering", "?"), v["cls"], v["site"])

def load_known():
    p = os.path.join(ROOT, "known_findings.json")
    if not os.path.exists(p):
        return []
    with open(p) as f:
        return json.load(f).get("findings", [])

def known_match(known, prop, key):
    for k in known:
        if k.get("property") == prop and fnmatch.fnmatchcase(key, k.get("key", "")):
            return k
    return None

# ------------------------------------------------------------------------------------------------------------
def build(flavours):
    t0 = time.time()
    targets = [f for f in flavours]
    r = subprocess.run(["make", "-C", ROOT, "-j16", "BUILD=" + BUILD, "REPO=" + os.environ.get("TBFSIM_REPO", "/repo")] + targets, stdout=subprocess.PIPE, stderr=subprocess.STDOUT, text=True)
    if r.returncode != 0:
        sys.stdout.write(r.stdout[-6000:])
        print("FRAMEWORK-ERROR: build failed")
        sys.exit(2)
    return time.time() - t0

def binary(flavour):
    return os.path.join(BUILD, "tbfsim_" + flavour)

class Worker:
    def __init__(self, flavour, prop, tier, base, stripe, of, count, start=0):
        self.flavour, self.prop, self.tier, self.base, self.stripe, self.of, self.count = flavour, prop, tier, base, stripe, of, count
        self.start = start
        self.cur_seed_n = None
        self.spawn()

    def spawn(self):
        cmd = [binary(self.flavour), "--prop", self.prop, "--tier", self.tier, "--base", str(self.base), "--stripe", str(self.stripe),
               "--of", str(self.of), "--count", str(self.count), "--from", str(self.start)]
        env = dict(os.environ)
        env.pop("ASAN_OPTIONS", None)
        self.errpath = "/dev/null"
        self.p = subprocess.Popen(cmd, stdout=subprocess.PIPE, stderr=subprocess.DEVNULL, bufsize=0, env=env)
        self.fd = self.p.stdout.fileno()
        self.buf = b""
        self.last_output = time.time()

def run_batch(flavour, prop, tier, base, count, nworkers, results, crashes, fw_errors, deadline):
    """Runs `count` scenarios striped over nworkers processes; restarts a worker that dies after the scenario it had started."""
    workers = [Worker(flavour, prop, tier, base, i, nworkers, count) for i in range(min(nworkers, count))]
    state = {id(w): {"seed": None, "n": None, "sub": None, "stage": None} for w in workers}
    live = list(workers)
    while live:
        fds = [w.fd for w in live]
        ready, _, _ = select.select(fds, [], [], 5.0)
        now = time.time()
        for w in list(live):
            st = state[id(w)]
            if w.fd in ready:
                chunk = os.read(w.fd, 1 << 20)
                if chunk:
                    w.last_output = now
                    w.buf += chunk
                    while True:
                        nl = w.buf.find(b"\n")
                        if nl < 0: break
                        line = w.buf[:nl].decode("utf-8", "replace"); w.buf = w.buf[nl + 1:]
                        handle_line(line, w, st, flavour, results, crashes)
                    continue
                # EOF: the process ended
                rc = w.p.wait()
                if st.get("restart") is not None:
                    nxt = st["restart"] + w.of
                    live.remove(w)
                    if nxt < count and time.time() < deadline:
                        nw = Worker(flavour, prop, tier, base, w.stripe, w.of, count, start=nxt)
                        state[id(nw)] = {"seed": None, "n": None, "sub": None, "stage": None}
                        live.append(nw)
                elif st["seed"] is not None and rc != 0:
                    # died inside scenario st["n"]
                    if not any(c["seed"] == st["seed"] and c["sub"] == st["sub"] and c["flavour"] == flavour for c in crashes):
                        crashes.append({"seed": st["seed"], "sub": st["sub"] if st["sub"] is not None else 0, "stage": st["stage"] or "?", "what": "exit=%d" % rc, "flavour": flavour})
                    nxt = st["n"] + w.of
                    live.remove(w)
                    if nxt < count and time.time() < deadline:
                        nw = Worker(flavour, prop, tier, base, w.stripe, w.of, count, start=nxt)
                        state[id(nw)] = {"seed": None, "n": None, "sub": None, "stage": None}
                        live.append(nw)
                else:
                    if rc != 0:
                        fw_errors.append("worker exited with %d outside any scenario" % rc)
                    live.remove(w)
            elif now - w.last_output > float(os.environ.get("TBFSIM_HANG_S", "300")):
                w.p.kill()
                crashes.append({"seed": st["seed"], "sub": st["sub"] or 0, "stage": st["stage"] or "?", "what": "hang", "flavour": flavour})
                if sum(1 for c in crashes if c["what"] == "hang") >= 6:
                    # the code under test hangs on (nearly) every scenario: stop the batch instead of waiting for each one
                    for o in live: o.p.kill()
                    return
                nxt = (st["n"] if st["n"] is not None else count) + w.of
                live.remove(w)
                if nxt < count:
                    nw = Worker(flavour, prop, tier, base, w.stripe, w.of, count, start=nxt)
                    state[id(nw)] = {"seed": None, "n": None, "sub": None, "stage": None}
                    live.append(nw)
        if time.time() > deadline:
            for w in live:
                w.p.kill()
            break

def handle_line(line, w, st, flavour, results, crashes):
    line = line.rstrip("\n")
    if line.startswith("START "):
        parts = line.split()
        st["seed"] = int(parts[1]); st["n"] = int(parts[2]) if len(parts) > 2 else None; st["sub"] = None; st["stage"] = "generate"
    elif line.startswith("STAGE "):
        parts = line.split()
        st["sub"] = int(parts[2]); st["stage"] = parts[3]
    elif line.startswith("RESULT "):
        try:
            r = json.loads(line[7:])
        except Exception:
            return
        r["flavour"] = flavour
        # where in the batch, and in which worker process, this run happened: the scenarios that process ran before it are its history
        r["n"], r["proc_start"], r["stripe"], r["of"] = st.get("n"), w.start, w.stripe, w.of
        results.append(r)
    elif line.startswith("DONE "):
        st["seed"] = None
    elif line.startswith("RESTART "):
        st["restart"] = int(line.split()[1])
    elif line.startswith("CRASH "):
        parts = line.split(None, 4)
        crashes.append({"seed": int(parts[1]), "sub": int(parts[2]), "stage": parts[3], "what": parts[4] if len(parts) > 4 else "", "flavour": flavour})

# ------------------------------------------------------------------------------------------------------------
def run_replay(flavour, scenario, timeout=120):
    """Runs one explicit scenario in a fresh process.  Returns (result or None, crash or None)."""
    os.makedirs(REPLAYS, exist_ok=True)
    tmp = os.path.join(REPLAYS, ".tmp-%d.json" % os.getpid())
    with open(tmp, "w") as f:
        json.dump({"scenario": scenario}, f)
    try:
        p = subprocess.run([binary(flavour), "--replay", tmp], stdout=subprocess.PIPE, stderr=subprocess.DEVNULL, text=True, timeout=timeout)
    except subprocess.TimeoutExpired:
        return None, {"stage": "?", "what": "hang"}
    finally:
        try: os.unlink(tmp)
        except OSError: pass
    res, crash = None, None
    stage = "?"
    for line in p.stdout.splitlines():
        if line.startswith("RESULT "):
            try: res = json.loads(line[7:])
            except Exception: pass
        elif line.startswith("STAGE "):
            stage = line.split()[3]
        elif line.startswith("CRASH ") and crash is None:
            parts = line.split(None, 4)
            crash = {"stage": parts[3], "what": parts[4] if len(parts) > 4 else ""}
    if res is None and crash is None and p.returncode not in (0, 1):
        crash = {"stage": stage, "what": "exit=%d" % p.returncode}
    return res, crash

def shows_history(prop, flavour, tier, base, indices, seed, sub, want, timeout=900):
    """Re-runs the batch indices `indices` in this order in ONE fresh process and reports whether the run (seed, sub) -- the last index --
    shows the wanted violation.  For violations that depend on what the same process did before (state kept in static variables)."""
    try:
        p = subprocess.run([binary(flavour), "--prop", prop, "--tier", tier, "--base", str(base), "--indices", ",".join(str(i) for i in indices)],
                           stdout=subprocess.PIPE, stderr=subprocess.DEVNULL, text=True, timeout=timeout)
    except subprocess.TimeoutExpired:
        return False, None
    for line in p.stdout.splitlines():
        if not line.startswith("RESULT "): continue
        try: res = json.loads(line[7:])
        except Exception: continue
        if res.get("seed") == seed and res.get("sub") == sub:
            for v in res.get("viol", []):
                if v["cls"] == want["cls"] and v["site"] == want["site"]:
                    return True, res
    return False, None

def emit_scenario(flavour, prop, tier, seed, sub, force=None):
    env = dict(os.environ)
    if force: env.update(force)
    p = subprocess.run([binary(flavour), "--emit", "--prop", prop, "--tier", tier, "--seed", str(seed), "--sub", str(sub)], stdout=subprocess.PIPE, stderr=subprocess.DEVNULL, text=True, env=env)
    for line in p.stdout.splitlines():
        if line.startswith("{"):
            return json.loads(line)
    return None

def shows(prop, flavour, scenario, want):
    """Does the scenario still show the wanted violation (same class and site; for crashes same stage)?"""
    if flavour == "valgrind":
        errs = valgrind_replay(scenario)
        return any(c == want["cls"] and st == want["site"] for (_, _, c, st, _) in errs), None, None
    res, crash = run_replay(flavour, scenario)
    if want["cls"] in ("crash", "hang", "abort"):
        if crash is None: return False, res, crash
        if "@" in want.get("site", ""):
            return crash_site(crash) == want["site"], res, crash
        return (crash["stage"] == want.get("stage") or want.get("stage") in (None, "?")), res, crash
    if res is None:
        return False, res, crash
    for v in res.get("viol", []):
        if v["cls"] == want["cls"] and v["site"] == want["site"]:
            return True, res, crash
    return False, res, crash

def ddmin_list(items, test, budget):
    """Classic ddmin on a list; test(list)->bool; budget is a mutable [remaining]."""
    n = 2
    while len(items) >= 2 and budget[0] > 0:
        chunk = max(1, len(items) // n)
        reduced = False
        for i in range(0, len(items), chunk):
            if budget[0] <= 0: break
            cand = items[:i] + items[i + chunk:]
            if not cand: continue
            budget[0] -= 1
            if test(cand):
                items = cand; n = max(n - 1, 2); reduced = True
                break
        if not reduced:
            if chunk == 1: break
            n = min(len(items), n * 2)
    return items

def minimise(prop, flavour, scenario, want, max_runs=300):
    budget = [max_runs]
    sc = json.loads(json.dumps(scenario))
    def ok(c):
        good, _, _ = shows(prop, flavour, c, want)
        return good
    def attempt(mut):
        if budget[0] <= 0: return False
        c = json.loads(json.dumps(sc)); mut(c)
        budget[0] -= 1
        if ok(c):
            sc.clear(); sc.update(c)
            return True
        return False
    start_sizes = (len(sc.get("particles", [])), len(sc.get("targets", [])), len(sc.get("decisions", []) or []), len(sc.get("history", [])))
    # a sequential executor, if the violation does not need the schedule at all
    if sc.get("executor") in ("omp", "omptsm") and want.get("where", "run") != "run":
        attempt(lambda c: c.__setitem__("executor", "seqtsm" if c["executor"].endswith("tsm") else "seq"))
    elif sc.get("executor") in ("omp", "omptsm"):
        attempt(lambda c: c.__setitem__("executor", "seqtsm" if c["executor"].endswith("tsm") else "seq"))
    # history operations
    i = 0
    while i < len(sc.get("history", [])) and len(sc["history"]) > 1:
        if not attempt(lambda c, i=i: c["history"].pop(i)): i += 1
    # particles (indices are positional: weights are recomputed per index)
    for key in ("particles", "targets"):
        if len(sc.get(key, [])) > 1:
            def t(lst, key=key):
                c = json.loads(json.dumps(sc)); c[key] = lst
                if key == "particles" and not lst: return False
                return ok(c)
            sc[key] = ddmin_list(sc[key], t, budget)
    # tree height, threads, policy simplifications
    min_height = 2 if any(h.get("op") == "top" for h in sc.get("history", [])) else 1    # the top-tree algorithm requires height > 1
    while sc["height"] > min_height and attempt(lambda c: c.__setitem__("height", c["height"] - 1)): pass
    for t in (1, 2):
        if sc["threads_exec"] > t and attempt(lambda c, t=t: (c.__setitem__("threads_exec", t), c.__setitem__("threads_ctor", t))): break
    attempt(lambda c: c["policy"].__setitem__("scribble", False))
    attempt(lambda c: c["policy"].__setitem__("team_shrink", 0))
    attempt(lambda c: c.__setitem__("block_size", 1000000))
    attempt(lambda c: c.__setitem__("one_group_per_parent", False))
    # schedule decisions: canonical = none (everything at the final wait in submission order)
    if sc.get("decisions"):
        if not attempt(lambda c: c.__setitem__("decisions", [])):
            def t(lst):
                c = json.loads(json.dumps(sc)); c["decisions"] = lst
                return ok(c)
            sc["decisions"] = ddmin_list(sc["decisions"], t, budget)
    sc_info = {"from_particles": start_sizes[0], "to_particles": len(sc.get("particles", [])), "from_targets": start_sizes[1], "to_targets": len(sc.get("targets", [])),
               "from_decisions": start_sizes[2], "to_decisions": len(sc.get("decisions", []) or []), "from_history": start_sizes[3], "to_history": len(sc.get("history", [])),
               "reruns": max_runs - budget[0]}
    return sc, sc_info


# ------------------------------------------------------------------------------------------------------------
# valgrind pass (C15): uninitialised values and invalid accesses that ASan cannot see, on the plain binary
VG_CMD = ["valgrind", "-q", "--error-exitcode=0", "--show-mismatched-frees=no", "--track-origins=yes", "--num-callers=30"]
VG_KINDS = [("Conditional jump or move depends on uninitialised", "valgrind:uninitialised"), ("Use of uninitialised value", "valgrind:uninitialised"),
            ("Syscall param", "valgrind:uninitialised"), ("Invalid read", "valgrind:invalid-read"), ("Invalid write", "valgrind:invalid-write"),
            ("Invalid free", "valgrind:invalid-free"), ("Source and destination overlap", "valgrind:overlap")]

def parse_valgrind(text):
    """-> list of (seed, sub, cls, site, detail); site = first library location of the origin (uninitialised) or of the access"""
    out, seed, sub = [], None, None
    lines = text.splitlines()
    i = 0
    while i < len(lines):
        l = lines[i]
        if l.startswith("STAGE "):
            p = l.split(); seed, sub = int(p[1]), int(p[2])
        m = re.match(r"==\d+== (.*)", l)
        if m:
            cls = None
            for pat, c in VG_KINDS:
                if m.group(1).startswith(pat): cls = c
            if cls:
                block = []
                j = i + 1
                while j < len(lines) and re.match(r"==\d+== \S", lines[j]) or (j < len(lines) and re.match(r"==\d+==\s+(at|by) ", lines[j])):
                    block.append(lines[j]); j += 1
                locs = re.findall(r"\((tbf[\w]+\.hpp|F[\w]+\.hpp):(\d+)\)", "\n".join(block))
                # prefer the origin ("was created by ...") if present
                origin = None
                for k, b in enumerate(block):
                    if "was created by" in b:
                        o = re.findall(r"\((tbf[\w]+\.hpp|F[\w]+\.hpp):(\d+)\)", "\n".join(block[k:]))
                        if o: origin = o[0]
                loc = origin or (locs[0] if locs else None)
                if loc and seed is not None:
                    out.append((seed, sub, cls, "%s:%s" % loc, m.group(1)[:120]))
                i = j
                continue
        i += 1
    return out

def valgrind_one(prop, tier, base, index, force=None):
    cmd = VG_CMD + [binary("plain"), "--prop", prop, "--tier", tier, "--base", str(base), "--from", str(index), "--count", str(index + 1)]
    env = dict(os.environ)
    if force: env.update(force)
    try:
        p = subprocess.run(cmd, stdout=subprocess.PIPE, stderr=subprocess.STDOUT, text=True, timeout=1800, env=env)
    except subprocess.TimeoutExpired:
        return [], 0
    runs = sum(1 for l in p.stdout.splitlines() if l.startswith("RESULT "))
    return parse_valgrind(p.stdout), runs

def valgrind_replay(scenario):
    os.makedirs(REPLAYS, exist_ok=True)
    tmp = os.path.join(REPLAYS, ".tmp-vg-%d.json" % os.getpid())
    with open(tmp, "w") as f: json.dump({"scenario": scenario}, f)
    try:
        p = subprocess.run(VG_CMD + [binary("plain"), "--replay", tmp], stdout=subprocess.PIPE, stderr=subprocess.STDOUT, text=True, timeout=1800)
    except subprocess.TimeoutExpired:
        return []
    finally:
        try: os.unlink(tmp)
        except OSError: pass
    return parse_valgrind(p.stdout)

def valgrind_batch(prop, tier, base, count, results_out):
    """runs `count` scenarios (all their sub-runs) under valgrind, 16 at a time; returns pseudo-results with violations"""
    import concurrent.futures
    total_runs = 0
    with concurrent.futures.ThreadPoolExecutor(max_workers=16) as ex:
        # structural part: every periodic top-tree depth with the sequential single and target/source executors (code that
        # only runs sequentially and that ASan cannot fault: reads of never-written stack slots), then the ordinary swarm
        forced = [{"TBFSIM_FORCE_ORDERING": "periodic", "TBFSIM_FORCE_EXECUTOR": ex_, "TBFSIM_FORCE_TOP": str(k)} for ex_ in ("seq", "seqtsm") for k in (-1, 0, 1, 2, 3)]
        futs = [ex.submit(valgrind_one, prop, tier, base, 1000 + i, f) for i, f in enumerate(forced)]
        futs += [ex.submit(valgrind_one, prop, tier, base, i) for i in range(6, count + 6)]   # indices 0..5 are the large scale scenarios
        for fi, f in enumerate(futs):
            errs, runs = f.result()
            force = forced[fi] if fi < len(forced) else None
            total_runs += runs
            seen = set()
            for seed, sub, cls, site, detail in errs:
                if (seed, sub, cls, site) in seen: continue
                seen.add((seed, sub, cls, site))
                sc = emit_scenario("plain", prop, tier, seed, sub, force)
                results_out.append({"seed": seed, "sub": sub, "flavour": "valgrind", "executor": sc["executor"] if sc else "?", "ordering": sc["ordering"] if sc else "?",
                                    "kernel": sc["kernel"] if sc else "?", "hash": None, "scenario": sc, "stats": {}, "policy": {}, "fw_errors": [],
                                    "viol": [{"cls": cls, "site": site, "detail": "valgrind memcheck: " + detail + " (origin/location " + site + ")", "where": "run", "task": ""}], "valgrind_only": True})
    return total_runs

# ------------------------------------------------------------------------------------------------------------
def main():
    ap = argparse.ArgumentParser()
    ap.add_argument("prop")
    ap.add_argument("--tier", default=os.environ.get("VERIF_TIER", "quick"))
    ap.add_argument("--seeds", type=int, default=0)
    ap.add_argument("--workers", type=int, default=0)
    ap.add_argument("--replay", default=None)
    ap.add_argument("--no-minimise", action="store_true")
    ap.add_argument("--time-limit", type=float, default=0)
    ap.add_argument("--evidence-dir", default=None)
    ap.add_argument("--replay-dir", default=None)
    args = ap.parse_args()
    prop, tier = args.prop, args.tier
    global EVIDENCE, REPLAYS
    if args.evidence_dir: EVIDENCE = args.evidence_dir
    if args.replay_dir: REPLAYS = args.replay_dir
    if tier not in ("quick", "thorough"): tier = "quick"
    if prop not in FLAVOURS:
        print("unknown property", prop); sys.exit(2)
    base = int(os.environ.get("VERIF_SEED", "20260926"))
    flavours = FLAVOURS[prop][0 if tier == "quick" else 1]
    known = load_known()
    t_start = time.time()
    build_s = build(flavours)

    if args.replay:
        with open(args.replay) as f:
            rep = json.load(f)
        flavour = rep.get("flavour", flavours[0])
        if flavour == "valgrind": build(["plain"])
        elif flavour not in flavours: build([flavour])
        want = rep.get("violation", {})
        if rep.get("process_history"):
            ph = rep["process_history"]
            good, res = shows_history(prop, flavour, ph["tier"], ph["base"], ph["indices"], rep["seed"], rep["sub"], want)
            crash = None
        else:
            good, res, crash = shows(prop, flavour, rep["scenario"], want)
        if good:
            print("reproduced: %s %s" % (want.get("cls"), want.get("site")))
            if res is not None and want.get("event_hash") and res.get("hash") != want.get("event_hash"):
                print("FRAMEWORK-ERROR: violation reproduced but the event hash differs (%s vs %s)" % (res.get("hash"), want.get("event_hash")))
                sys.exit(2)
            print("VIOLATION property=%s replay=%s" % (prop, os.path.abspath(args.replay)))
            sys.exit(1)
        print("not reproduced on this tree")
        sys.exit(0)

    nseeds = args.seeds or SEEDS[prop][0 if tier == "quick" else 1]
    results, crashes, fw_errors = [], [], []
    limit = args.time_limit or (900 if tier == "quick" else 3 * 3600)
    deadline = t_start + limit
    for fl in flavours:
        nworkers = args.workers or (16 if fl == "plain" else 12)
        n = nseeds if fl == flavours[0] else max(50, nseeds // 16)
        run_batch(fl, prop, tier, base, n, nworkers, results, crashes, fw_errors, deadline)
    vg_runs = 0
    if prop == "C15" and shutil.which("valgrind") and not os.environ.get("TBFSIM_NO_VALGRIND"):
        if "plain" not in flavours: build(["plain"])
        vg_results = []
        vg_runs = valgrind_batch(prop, tier, base + 7919, 8 if tier == "quick" else 1500, vg_results)
        results_vg = vg_results
    else:
        results_vg = []
    run_s = time.time() - t_start - build_s
    global VG_RUNS
    VG_RUNS = vg_runs

    # ---- classify ----
    for r in results:
        for e in r.get("fw_errors", []):
            fw_errors.append("seed %s sub %s: %s" % (r["seed"], r["sub"], e))
    found = collections.OrderedDict()     # key -> (run, violation)
    for r in results + results_vg:
        for v in r.get("viol", []):
            if belongs(prop, v, r):
                k = vkey(r, v)
                if k not in found: found[k] = (r, v, 1)
                else: found[k] = (found[k][0], found[k][1], found[k][2] + 1)
    for c in crashes:
        # a crash needs its scenario to be attributed: regenerate it
        sc = emit_scenario(c["flavour"], prop, tier, c["seed"], c["sub"]) if c["seed"] is not None else None
        ex = sc["executor"] if sc else "?"
        v = {"cls": "hang" if c["what"] == "hang" else "crash", "site": crash_site(c), "stage": c["stage"], "detail": "process died in stage %s (%s)" % (c["stage"], c["what"]), "where": "run", "task": ""}
        run = {"seed": c["seed"], "sub": c["sub"], "executor": ex, "ordering": sc["ordering"] if sc else "?", "flavour": c["flavour"], "scenario": sc, "hash": None}
        if belongs(prop, v, run):
            k = vkey(run, v)
            if k not in found: found[k] = (run, v, 1)
            else: found[k] = (found[k][0], found[k][1], found[k][2] + 1)

    new, seen_known = [], []
    for k, (r, v, cnt) in found.items():
        kf = known_match(known, prop, k)
        if kf: seen_known.append((kf, k, cnt))
        else: new.append((k, r, v, cnt))

    # ---- gate, minimise, write replay files ----
    os.makedirs(REPLAYS, exist_ok=True)
    violation_lines, gate_failures = [], []
    for k, r, v, cnt in new[:8]:
        sc = r.get("scenario") or emit_scenario(r["flavour"], prop, tier, r["seed"], r["sub"])
        if sc is None:
            gate_failures.append("no scenario for " + k); continue
        good, res, crash = shows(prop, r["flavour"], sc, v)
        if not good and r.get("n") is not None and r["flavour"] != "valgrind" and v["cls"] not in ("crash", "hang", "abort", "quiescence"):
            # not reproducible from the scenario alone: does it need what the same worker process ran before it?
            hist = [i for i in range(r["proc_start"], r["n"] + 1) if i % r["of"] == r["stripe"]]
            okh, resh = (shows_history(prop, r["flavour"], tier, base, hist, r["seed"], r["sub"], v) if len(hist) > 1 else (False, None))
            if okh:
                okh2, resh2 = shows_history(prop, r["flavour"], tier, base, hist, r["seed"], r["sub"], v)   # twice: the history replay itself must be repeatable
                if not okh2 or resh2.get("hash") != resh.get("hash"):
                    gate_failures.append("violation %s (seed %s sub %s): the process-history replay is not repeatable" % (k, r["seed"], r["sub"])); continue
                pred, last = hist[:-1], hist[-1]
                before = len(pred)
                if not args.no_minimise:
                    single = None
                    for i in reversed(pred[-24:]):
                        if shows_history(prop, r["flavour"], tier, base, [i, last], r["seed"], r["sub"], v)[0]: single = [i]; break
                    if single is not None: pred = single
                    else:
                        budget = [40]
                        pred = ddmin_list(pred, lambda lst: shows_history(prop, r["flavour"], tier, base, lst + [last], r["seed"], r["sub"], v)[0], budget)
                name = "%s-%s-%s.json" % (prop, r["seed"], hashlib.sha1(k.encode()).hexdigest()[:8])
                path = os.path.join(REPLAYS, name)
                viol = dict(v); viol["key"] = k; viol["event_hash"] = resh.get("hash"); viol["occurrences_in_batch"] = cnt
                viol["detail"] = v.get("detail", "") + " [only after %d earlier scenario(s) in the same process: state kept between scenarios]" % len(pred)
                with open(path, "w") as f:
                    json.dump({"format": 1, "property": prop, "seed": r["seed"], "sub": r["sub"], "flavour": r["flavour"], "violation": viol, "scenario": sc,
                               "process_history": {"tier": tier, "base": base, "indices": pred + [last], "from_predecessors": before, "to_predecessors": len(pred)}}, f, indent=1)
                violation_lines.append((k, path, viol))
                continue
        if not good:
            gate_failures.append("violation %s (seed %s sub %s) did not reproduce in a fresh process" % (k, r["seed"], r["sub"])); continue
        if r["flavour"] != "valgrind" and res is not None and r.get("hash") and res.get("hash") != r.get("hash"):
            gate_failures.append("violation %s (seed %s sub %s): event hash differs on replay (%s vs %s)" % (k, r["seed"], r["sub"], res.get("hash"), r.get("hash"))); continue
        info = {}
        if not args.no_minimise:
            sc, info = minimise(prop, r["flavour"], sc, v)
            good, res, crash = shows(prop, r["flavour"], sc, v)
            if not good:
                gate_failures.append("minimised scenario of %s does not reproduce" % k); continue
        name = "%s-%s-%s.json" % (prop, r["seed"], hashlib.sha1(k.encode()).hexdigest()[:8])
        path = os.path.join(REPLAYS, name)
        viol = dict(v); viol["key"] = k; viol["event_hash"] = res.get("hash") if res else None; viol["occurrences_in_batch"] = cnt
        with open(path, "w") as f:
            json.dump({"format": 1, "property": prop, "seed": r["seed"], "sub": r["sub"], "flavour": r["flavour"], "violation": viol, "scenario": sc, "minimised": info}, f, indent=1)
        violation_lines.append((k, path, v))

    # ---- evidence ----
    write_evidence(prop, tier, base, flavours, results, crashes, found, new, seen_known, fw_errors, gate_failures, build_s, run_s, time.time() - t_start)

    by_finding = collections.OrderedDict()
    for kf, k, cnt in seen_known:
        e = by_finding.setdefault(kf.get("key"), [kf, 0, []])
        e[1] += cnt; e[2].append(k)
    for key, (kf, cnt, keys) in by_finding.items():
        print("KNOWN-FINDING: property=%s %s [%s; %d runs]" % (prop, kf.get("description", key), key, cnt))
    # a violation that does not replay is a framework error -- unless other violations of this batch did replay exactly:
    # then the unconfirmed ones are most likely follow-up damage of the confirmed defect (undefined behaviour) and are only noted
    if gate_failures and violation_lines:
        for e in gate_failures[:10]:
            print("note (not confirmed on replay, not reported): " + e)
        gate_failures = []
    if fw_errors or gate_failures:
        for e in (fw_errors + gate_failures)[:10]:
            print("FRAMEWORK-ERROR: " + e)
        sys.exit(2)
    if len(results) == 0:
        print("FRAMEWORK-ERROR: no run completed"); sys.exit(2)
    if violation_lines or new:
        for k, path, v in violation_lines:
            print("violation: %s -- %s" % (k, v.get("detail", "")))
            print("VIOLATION property=%s replay=%s" % (prop, path))
        sys.exit(1)
    print("OK property=%s tier=%s runs=%d" % (prop, tier, len(results)))
    sys.exit(0)

def write_evidence(prop, tier, base, flavours, results, crashes, found, new, seen_known, fw_errors, gate_failures, build_s, run_s, wall):
    os.makedirs(EVIDENCE, exist_ok=True)
    nontrivial = set()
    inv_pairs, nest_pairs = set(), set()
    agg = collections.Counter()
    policies = collections.Counter()
    executors = collections.Counter()
    faults = collections.Counter()
    heights = collections.Counter()
    steps = 0
    for r in results:
        s = r.get("stats", {})
        for k, val in s.items():
            if isinstance(val, int): agg[k] += val
        steps += r.get("steps", 0)
        inv_pairs.update(r.get("inverted_pairs", [])); nest_pairs.update(r.get("nested_pairs", []))
        executors["%s/%s/%s" % (r.get("ordering"), r.get("kernel"), r.get("executor"))] += 1
        heights[str(r.get("height"))] += 1
        pol = r.get("policy", {})
        policies["pick=%s" % pol.get("pick")] += 1
        policies["worker_mode=%s" % pol.get("worker_mode")] += 1
        if s.get("tasks", 0) > 0:
            if pol.get("p_create") == 0 and pol.get("p_yield") == 0: faults["defer_all"] += 1
            if s.get("started_create", 0) > 0: faults["inline_now"] += 1
            if s.get("prio_inversions", 0) > 0: faults["priority_inversion"] += 1
            if pol.get("worker_mode") in (2, 3, 4): faults["starve"] += 1
            if s.get("threads_changed"): faults["threads_change"] += 1
            if s.get("team_smaller", 0) > 0: faults["team_smaller"] += 1
            if s.get("ran_after_scribble", 0) > 0: faults["stack_scribble"] += 1
            if s.get("overlaps", 0) > 0: faults["overlap_inside_callback"] += 1
            if s.get("started_deep", 0) > 0: faults["preempt_inside_kernel_operator"] += 1
        trivial = (s.get("tasks", 0) == 0) if r.get("executor") not in ("seq", "seqtsm") else False
        if r.get("executor") in ("seq", "seqtsm"):
            nontrivial.add(("seq", r["seed"]))     # sequential executors: one point per scenario
        elif not trivial and (s.get("inversions", 0) > 0 or s.get("overlaps", 0) > 0 or s.get("started_wait", 0) > 0):
            nontrivial.add(r.get("hash"))
    samples = []
    for r in results[:3]:
        samples.append({"seed": r["seed"], "sub": r["sub"], "executor": r.get("executor"), "kernel": r.get("kernel"), "height": r.get("height"), "particles": r.get("n"), "targets": r.get("nt"),
                        "threads": r.get("threads"), "policy": r.get("policy"), "event_hash": r.get("hash"), "tasks": r.get("stats", {}).get("tasks"), "scheduler_decisions": r.get("decisions")})
    # one complete sample: the explicit scenario and the scheduler's decision log of a task-based run of this batch
    full_sample = None
    try:
        cand = next((r for r in results if r.get("stats", {}).get("tasks", 0) > 3 and r.get("flavour") in ("plain", "asan") and r.get("n", 0) < 3000), None)
        if cand:
            p = subprocess.run([binary(cand["flavour"]), "--prop", prop, "--tier", tier, "--seed", str(cand["seed"]), "--sub", str(cand["sub"])],
                               stdout=subprocess.PIPE, stderr=subprocess.DEVNULL, text=True, timeout=120)
            for line in p.stdout.splitlines():
                if line.startswith("RESULT "):
                    rr = json.loads(line[7:]); sc = rr.get("scenario", {})
                    full_sample = {"seed": cand["seed"], "sub": cand["sub"], "replays_to_same_event_hash": rr.get("hash") == cand.get("hash"),
                                   "executor": sc.get("executor"), "ordering": sc.get("ordering"), "kernel": sc.get("kernel"), "height": sc.get("height"),
                                   "block_size": sc.get("block_size"), "upper": sc.get("upper"), "threads_ctor": sc.get("threads_ctor"), "threads_exec": sc.get("threads_exec"),
                                   "history": sc.get("history"), "first_particles": (sc.get("particles") or [])[:3], "nb_particles": len(sc.get("particles") or []),
                                   "decisions_[point_ordinal,ready_pos,worker_pos]": (sc.get("decisions") or [])[:60], "nb_decisions": len(sc.get("decisions") or [])}
    except Exception:
        full_sample = None
    if full_sample: samples.append(full_sample)
    ev = {
        "property_id": prop, "tier": tier, "seed": base, "level": "exploration",
        "coverage": {
            "evaluations": len(results),
            "distinct_nontrivial": len(nontrivial),
            "rule": "one evaluation = one simulated run (scenario x executor x seeded schedule); distinct = distinct event-log hash; non-trivial = task-based run in which at least one task started out of submission order, nested inside another task's kernel callback, or deferred to a waiting point (sequential-executor runs count once per scenario)",
            "samples": samples,
            "seeds_base": base,
            "scenarios": len(set(r["seed"] for r in results)),
            "runs_per_hour": int(len(results) / max(run_s, 1e-3) * 3600),
            "sim_steps": steps,
            "simulated_time_note": "tbfmm has no clock; simulated time is reported as scheduler steps (scheduling points visited)",
            "faults_fired": dict(faults),
            "order_inversions_seen": {"distinct_pairs_of_task_kinds": len(inv_pairs), "meaning": "X<Y: a task of kind X started while an earlier-submitted task of kind Y was still pending", "sample": sorted(inv_pairs)[:40]},
            "overlaps_seen": {"distinct_pairs_of_task_kinds": len(nest_pairs), "meaning": "X in Y: a task of kind X ran entirely while a task of kind Y was suspended inside a kernel callback", "sample": sorted(nest_pairs)[:40]},
            "totals": dict(agg),
            "policies": dict(policies),
            "executors": dict(executors),
            "tree_heights": dict(heights),
            "flavours": flavours,
            "valgrind_memcheck_runs": globals().get("VG_RUNS", 0),
            "crashes": len(crashes),
            "components_real": ["every header under /repo/src reached by the runs: sequential and OpenMP executors (plain and target/source), group/kernel interface, trees, containers, space index, counter kernel, and the compiler's outlined task bodies and capture blocks"],
            "components_stub": ["libgomp (replaced at link time by sim/gompsim.cpp)", "Specx runtime (sim/stubs/specx/Legacy/SpRuntime.hpp; the real runtime is an empty submodule here): results for specx/specxtsm executors are conditional on the stub's reading of Specx's dependency semantics", "StarPU runtime (sim/stubs/starpu/starpu.h, CPU codelets only; StarPU is not installed): results for starpu/starputsm executors are conditional on the stub's reading of StarPU's sequential-consistency and access-mode semantics"],
            "known_findings_seen": [{"key": k, "runs": cnt} for (_, k, cnt) in seen_known],
            "violation_keys": [k for (k, _, _, _) in new],
            "framework_errors": (fw_errors + gate_failures)[:10],
            "build_s": round(build_s, 1), "run_s": round(run_s, 1),
        },
        "assumptions": [
            "the stub runtime implements the documented dependency semantics (sequential consistency by submission order per address; in/out/inout/mutexinoutset), tasks tied, completion at taskwait and at the end of the parallel region",
            "g++ 12 lowering of the pragmas is taken as shipped (with _OPENMP=201511 `commute` is `inout`)",
            "overlap is simulated at kernel-callback granularity with LIFO nesting; finer interleavings are covered through the declared-dependency race check",
        ],
        "wall_s": round(wall, 2),
        "violations": len(new),
    }
    with open(os.path.join(EVIDENCE, prop + ".json"), "w") as f:
        json.dump(ev, f, indent=1)

if __name__ == "__main__":
    main()
