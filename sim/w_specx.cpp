// Worlds: the Specx executors (real tbfmm code) on the stub runtime sim/stubs/specx/Legacy/SpRuntime.hpp.
#include "world_impl.hpp"
#include "algorithms/smspecx/tbfsmspecxalgorithm.hpp"
#include "algorithms/smspecx/tbfsmspecxalgorithmtsm.hpp"

namespace tbfsim {

template <class Cfg> struct AlgoSelect<Cfg, EX_SPECX> { using type = TbfSmSpecxAlgorithm<typename Cfg::Real, Probe<typename Cfg::Inner>, typename Cfg::Space>; };
template <class Cfg> struct AlgoSelect<Cfg, EX_SPECX_TSM> { using type = TbfSmSpecxAlgorithmTsm<typename Cfg::Real, Probe<typename Cfg::Inner>, typename Cfg::Space>; };

struct CfgWeightSpecx : CfgCommon {
    using Real = double;
    using Space = TbfDefaultSpaceIndexType<double>;
    static constexpr long NbData = 4;
    static constexpr bool periodic = false;
    static constexpr bool canRebuild = true;
    static constexpr bool hasCounters = false;
    using Inner = WeightKernel<Real, Space>;
    using Rhs = unsigned long;
    static constexpr long NbRhs = 2;
    using Mult = std::array<unsigned long, 2>;
    using Loc = std::array<unsigned long, 2>;
};

#define REG(key, Cfg, Ex) static WorldRegistrar reg_##Cfg##_##Ex(key, [](const Scenario& s) { return std::unique_ptr<IWorld>(new World<Cfg, Ex>(s)); })
REG("morton/weight/specx", CfgWeightSpecx, EX_SPECX);
REG("morton/weight/specxtsm", CfgWeightSpecx, EX_SPECX_TSM);

}  // namespace tbfsim
