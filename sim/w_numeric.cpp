// Worlds: the shipped numerical kernels (rotation P=4, uniform interpolation order 3) with the sequential and OpenMP
// executors, for the "equal to rounding" half of C03 and for C15.
#include "world_impl.hpp"
#include "algorithms/openmp/tbfopenmpalgorithm.hpp"
#include "algorithms/openmp/tbfopenmpalgorithmtsm.hpp"
#include "kernels/rotationkernel/FRotationKernel.hpp"
#include "kernels/unifkernel/FUnifKernel.hpp"
#include "algorithms/periodic/tbfalgorithmperiodictoptree.hpp"
#include "algorithms/periodic/tbfalgorithmperiodictoptreetsm.hpp"

#include <complex>

namespace tbfsim {

template <class Cfg> struct AlgoSelect<Cfg, EX_OMP> { using type = TbfOpenmpAlgorithm<typename Cfg::Real, Probe<typename Cfg::Inner>, typename Cfg::Space>; };
template <class Cfg> struct AlgoSelect<Cfg, EX_OMP_TSM> { using type = TbfOpenmpAlgorithmTsm<typename Cfg::Real, Probe<typename Cfg::Inner>, typename Cfg::Space>; };

struct CfgNumBase : CfgCommon {
    using Real = double;
    using Space = TbfDefaultSpaceIndexType<double>;
    static constexpr long NbData = 4;
    static constexpr bool periodic = false;
    static constexpr bool canRebuild = true;
    static constexpr bool hasCounters = false;
    using Rhs = double;
    static constexpr long NbRhs = 4;
};
struct CfgRot : CfgNumBase {
    static constexpr int P = 4;
    static constexpr long VectorSize = ((P + 2) * (P + 1)) / 2;
    using Inner = FRotationKernel<Real, P>;
    using Mult = std::array<std::complex<Real>, VectorSize>;
    using Loc = std::array<std::complex<Real>, VectorSize>;
};
struct CfgUnif : CfgNumBase {
    static constexpr unsigned int ORDER = 3;
    static constexpr long VectorSize = TensorTraits<ORDER>::nnodes;
    static constexpr long TransformedVectorSize = (2 * ORDER - 1) * (2 * ORDER - 1) * (2 * ORDER - 1);
    struct MultipoleData { Real multipole_exp[VectorSize]; std::complex<Real> transformed_multipole_exp[TransformedVectorSize]; };
    struct LocalData { Real local_exp[VectorSize]; std::complex<Real> transformed_local_exp[TransformedVectorSize]; };
    using Inner = FUnifKernel<Real, FInterpMatrixKernelR<Real>, ORDER>;
    using Mult = MultipoleData;
    using Loc = LocalData;
    static constexpr bool kernelCtorOnly = true;      // FUnifKernel needs the matrix kernel: no configuration-only constructor
    template <class PK, class Conf> static PK make(const Conf& c) { static const FInterpMatrixKernelR<Real> mk; return PK(Inner(c, &mk)); }
};

// the rotation kernel with the periodic ordering (its near field shifts positions across the periodic boundary)
struct CfgRotPeriodic : CfgCommon {
    using Real = double;
    using Space = TbfDefaultSpaceIndexTypePeriodic<double>;
    static constexpr long NbData = 4;
    static constexpr bool periodic = true;
    static constexpr bool canRebuild = true;
    static constexpr bool hasCounters = false;
    using Rhs = double;
    static constexpr long NbRhs = 4;
    static constexpr int P = 4;
    static constexpr long VectorSize = ((P + 2) * (P + 1)) / 2;
    using Inner = FRotationKernel<Real, P, Space>;
    using Mult = std::array<std::complex<Real>, VectorSize>;
    using Loc = std::array<std::complex<Real>, VectorSize>;
    template <class PK> using TopAlgo = TbfAlgorithmPeriodicTopTree<Real, PK, Mult, Loc, Space>;
    template <class PK> using TopAlgoTsm = TbfAlgorithmPeriodicTopTreeTsm<Real, PK, Mult, Loc, Space>;
};

struct CfgUnifPeriodic : CfgCommon {
    using Real = double;
    using Space = TbfDefaultSpaceIndexTypePeriodic<double>;
    static constexpr long NbData = 4;
    static constexpr bool periodic = true;
    static constexpr bool canRebuild = true;
    static constexpr bool hasCounters = false;
    using Rhs = double;
    static constexpr long NbRhs = 4;
    static constexpr unsigned int ORDER = 3;
    static constexpr long VectorSize = TensorTraits<ORDER>::nnodes;
    static constexpr long TransformedVectorSize = (2 * ORDER - 1) * (2 * ORDER - 1) * (2 * ORDER - 1);
    struct MultipoleData { Real multipole_exp[VectorSize]; std::complex<Real> transformed_multipole_exp[TransformedVectorSize]; };
    struct LocalData { Real local_exp[VectorSize]; std::complex<Real> transformed_local_exp[TransformedVectorSize]; };
    using Inner = FUnifKernel<Real, FInterpMatrixKernelR<Real>, ORDER, 3, Space>;
    using Mult = MultipoleData;
    using Loc = LocalData;
    static constexpr bool kernelCtorOnly = true;
    template <class PK, class Conf> static PK make(const Conf& c) { static const FInterpMatrixKernelR<Real> mk; return PK(Inner(c, &mk)); }
    // no top-tree executor here: it would need a kernel built for the extended configuration (matrix kernel argument)
};
// single precision rotation kernel (the library ships float tests of its numerical kernels)
struct CfgRotFloat : CfgCommon {
    using Real = float;
    using Space = TbfDefaultSpaceIndexType<float>;
    static constexpr long NbData = 4;
    static constexpr bool periodic = false;
    static constexpr bool canRebuild = true;
    static constexpr bool hasCounters = false;
    using Rhs = float;
    static constexpr long NbRhs = 4;
    static constexpr int P = 4;
    static constexpr long VectorSize = ((P + 2) * (P + 1)) / 2;
    using Inner = FRotationKernel<Real, P>;
    using Mult = std::array<std::complex<Real>, VectorSize>;
    using Loc = std::array<std::complex<Real>, VectorSize>;
};

#define REG(key, Cfg, Ex) static WorldRegistrar reg_##Cfg##_##Ex(key, [](const Scenario& s) { return std::unique_ptr<IWorld>(new World<Cfg, Ex>(s)); })
REG("morton/rot/seq", CfgRot, EX_SEQ);
REG("morton/rot/omp", CfgRot, EX_OMP);
REG("morton/rot/seqtsm", CfgRot, EX_SEQ_TSM);
REG("morton/rot/omptsm", CfgRot, EX_OMP_TSM);
REG("periodic/rot/seq", CfgRotPeriodic, EX_SEQ);
REG("periodic/rot/omp", CfgRotPeriodic, EX_OMP);
REG("periodic/rot/seqtsm", CfgRotPeriodic, EX_SEQ_TSM);
REG("periodic/rot/omptsm", CfgRotPeriodic, EX_OMP_TSM);
REG("periodic/unif/seq", CfgUnifPeriodic, EX_SEQ);
REG("periodic/unif/omp", CfgUnifPeriodic, EX_OMP);
REG("morton/rot_float/seq", CfgRotFloat, EX_SEQ);
REG("morton/rot_float/omp", CfgRotFloat, EX_OMP);
REG("morton/rot_float/seqtsm", CfgRotFloat, EX_SEQ_TSM);
REG("morton/rot_float/omptsm", CfgRotFloat, EX_OMP_TSM);
REG("morton/unif/seqtsm", CfgUnif, EX_SEQ_TSM);
REG("morton/unif/omptsm", CfgUnif, EX_OMP_TSM);
REG("morton/unif/seq", CfgUnif, EX_SEQ);
REG("morton/unif/omp", CfgUnif, EX_OMP);

}  // namespace tbfsim
