#ifndef TBFSIM_RECIPES_HPP
#define TBFSIM_RECIPES_HPP

#include "world.hpp"
#include "oracles.hpp"
#include "json.hpp"

namespace tbfsim {

Scenario generate(const std::string& prop, uint64_t seed, const std::string& tier, bool plainFlavour);
void applySchedule(Scenario& sc, int sub, bool plainFlavour);
int schedulesPer(const std::string& prop, const std::string& tier);
int nbStagings();

// one simulated run; returns the result record (see main.cpp for the line protocol)
Json runScenario(const Scenario& sc);

// flavour hooks implemented in main.cpp
bool flavourIsPlain();
long liveAllocations();
void setStage(const char* stage);

}  // namespace tbfsim
#endif
