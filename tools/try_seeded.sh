#!/bin/bash
# Applies a seeded change to /repo, runs the given checks (quick tier, reduced seeds unless SEEDS is set), and restores /repo.
# usage: tools/try_seeded.sh <patch.diff> <PROP> [<PROP> ...]
set -u
cd "$(dirname "$0")/.."
patch="$1"; shift
if ! git -C /repo diff --quiet; then echo "/repo has uncommitted changes"; exit 2; fi
restore() { git -C /repo checkout -- . ; }
trap restore EXIT
if ! git -C /repo apply "$patch" 2>/dev/null && ! git -C /repo apply --3way "$patch" 2>/dev/null; then echo "patch does not apply"; exit 2; fi
git -C /repo reset -q 2>/dev/null
rc_all=0
for p in "$@"; do
  out=$(python3 tools/check.py "$p" ${SEEDS:+--seeds $SEEDS} --evidence-dir /var/tmp/tbfsim_seed_ev --replay-dir /var/tmp/tbfsim_seed_ev ${NOMIN:+--no-minimise} 2>&1); rc=$?
  echo "== $p exit=$rc"; echo "$out" | grep -E "^violation|^FRAMEWORK|^OK" | cut -c1-300 | head -6
done
rm -rf /var/tmp/tbfsim_seed_ev
