#include "probe.hpp"

#include <cfloat>
#include <cmath>
#include <cstdio>

namespace tbfsim {

Ctx* g_ctx = nullptr;

void Ctx::addViolation(const std::string& cls, const std::string& site, const std::string& detail) {
    for (auto& v : viol) if (v.cls == cls && v.site == site) return;   // first occurrence per (class, site) and run
    if (viol.size() >= maxViol) return;
    Violation v;
    v.cls = (guardDepth > 0 && cls == "argcheck") ? std::string("wrapper-args") : cls;
    for (auto& o : viol) if (o.cls == v.cls && o.site == site) return;
    v.site = site;
    v.detail = detail;
    v.task = sim.active ? sim.taskLabel(sim.curTask) : std::string("sequential");
    viol.push_back(v);
}

void Ctx::resetRun() {
    viol.clear();
    calls.clear();
    kernelWorkers.clear();
    callbacks = 0;
    argchecks = 0;
    guardDepth = 0;
}

void Ctx::enter(int op, long level, const void* kthis, long n) {
    callbacks += 1;
    calls.push_back(CallRec{op, level, sim.active ? sim.curTask : -1, sim.active ? sim.curWorker : 0, kthis, n, -1});
    if (sim.active) {
        kernelWorkers[kthis].insert(sim.curWorker);
        sim.noteCallback(op, level);
        if (yields) sim.point(PK_YIELD);
    }
}

void Ctx::leave() {
    if (sim.active && yields) sim.point(PK_YIELD);
}

static std::string cstr(const Coord& c) {
    return "(" + std::to_string(c[0]) + "," + std::to_string(c[1]) + "," + std::to_string(c[2]) + ")";
}

void Ctx::checkLeafArgs(int op, const LeafArgs& a, int expectTree, const char* role) {
    const TreeView& v = *view;
    const std::string pre = std::string(opName(op)) + "." + role + ".";
    const int li = TreeView::find(v.byIndexes, a.idx);
    if (li < 0) { addViolation("argcheck", pre + "unknown-leaf", "index array is not the index array of any leaf of the tree"); return; }
    const LeafRec& l = v.leaves[size_t(li)];
    if (l.tree != expectTree) addViolation("argcheck", pre + "wrong-tree", "leaf belongs to tree " + std::to_string(l.tree));
    if (a.hdr && TreeView::find(v.byLeafHdr, a.hdr) != li) addViolation("argcheck", pre + "header-mismatch", "symbolic data is not the header of the leaf whose particles are given");
    if (a.hdr && (a.hdrCoord != l.coord || a.hdrSpaceIndex != l.spaceIndex)) addViolation("argcheck", pre + "header-altered", "leaf header fields differ from those recorded at construction");
    if (a.n < 1) addViolation("argcheck", pre + "empty", "leaf operator called with " + std::to_string(a.n) + " particles");
    if (a.n != l.n || (a.hdrNb >= 0 && a.hdrNb != a.n)) addViolation("argcheck", pre + "count", "count " + std::to_string(a.n) + " but the leaf holds " + std::to_string(l.n));
    for (size_t k = 0; k < a.data.size() && k < l.data.size(); ++k)
        if (a.data[k] != l.data[k]) { addViolation("argcheck", pre + "data-pointer", "data row " + std::to_string(k) + " is not the row of this leaf"); break; }
    for (size_t k = 0; k < a.rhs.size() && k < l.rhs.size(); ++k)
        if (a.rhs[k] != l.rhs[k]) { addViolation("argcheck", pre + "rhs-pointer", "result row " + std::to_string(k) + " is not the row of this leaf"); break; }
    // the leaf itself is a cell of the grid
    for (int d = 0; d < 3; ++d) if (l.coord[size_t(d)] < 0 || l.coord[size_t(d)] >= (1L << (height - 1))) {
        addViolation("argcheck", pre + "outside-grid", "leaf " + cstr(l.coord) + " lies outside the " + std::to_string(1L << (height - 1)) + "^3 grid of the leaf level");
        break;
    }
    // particles: original index, unmodified data, inside the leaf's box
    const auto& in = inputs[l.tree];
    const long n = a.n < l.n ? a.n : l.n;
    const double lw[3] = {width[0] / double(1L << (height - 1)), width[1] / double(1L << (height - 1)), width[2] / double(1L << (height - 1))};
    for (long i = 0; i < n; ++i) {
        const long oi = a.idx[i];
        if (oi < 0 || oi >= long(in.size())) { addViolation("argcheck", pre + "index-range", "particle index " + std::to_string(oi) + " out of range"); break; }
        bool same = true;
        double p[4] = {0, 0, 0, 0};
        for (size_t k = 0; k < a.data.size(); ++k) {
            const double expect = k < 4 ? in[size_t(oi)][k] : extraData(oi, k);
            if (isFloat) {
                const float f = static_cast<const float*>(a.data[k])[i];
                if (k < 4) p[k] = double(f);
                if (f != float(expect)) same = false;
            } else {
                const double d = static_cast<const double*>(a.data[k])[i];
                if (k < 4) p[k] = d;
                if (std::memcmp(&d, &expect, sizeof(double)) != 0) same = false;
            }
        }
        if (!same) { addViolation("argcheck", pre + "data-value", "data of particle " + std::to_string(oi) + " differs from the inserted values"); break; }
        for (int d = 0; d < 3; ++d) {
            const double rel = p[d] - corner[d];
            const double tol = 16.0 * (isFloat ? double(FLT_EPSILON) : DBL_EPSILON) * (std::fabs(width[d]) + std::fabs(corner[d]));
            const double lo = double(l.coord[size_t(d)]) * lw[d], hi = double(l.coord[size_t(d)] + 1) * lw[d];
            if (rel < lo - tol || rel > hi + tol) {
                addViolation("argcheck", pre + "outside-box", "particle " + std::to_string(oi) + " dim " + std::to_string(d) + " lies outside leaf " + cstr(l.coord));
                i = n;
                break;
            }
        }
    }
}

void Ctx::onP2M(const void* symb, long symbIndex, const Coord& symbCoord, const LeafArgs& leaf, const void* mult, size_t multBytes) {
    if (record && sim.active && guardDepth == 0) {
        for (auto p : leaf.data) sim.noteAccess(p, size_t(leaf.n) * (view ? view->dataElem : 8), false, BUF_PART_SYMB);
        sim.noteAccess(mult, multBytes, true, BUF_MULT);
    }
    if (!argcheck || !view) return;
    argchecks += 1;
    const TreeView& v = *view;
    const int ci = TreeView::find(v.byMult, mult);
    if (ci < 0) { addViolation("argcheck", "P2M.unknown-cell", "output is not the multipole of any cell"); return; }
    const CellRec& c = v.cells[size_t(ci)];
    if (c.level != height - 1 || c.tree != 0) addViolation("argcheck", "P2M.not-leaf-level", "output cell is at level " + std::to_string(c.level));
    if (TreeView::find(v.byCellHdr, symb) != ci || symbCoord != c.coord || symbIndex != c.spaceIndex)
        addViolation("argcheck", "P2M.header-mismatch", "symbolic data does not describe the output cell " + cstr(c.coord));
    checkLeafArgs(OP_P2M, leaf, 0, "leaf");
    const int li = TreeView::find(v.byIndexes, leaf.idx);
    if (li >= 0 && v.leaves[size_t(li)].coord != c.coord) addViolation("argcheck", "P2M.leaf-cell-mismatch", "particles of leaf " + cstr(v.leaves[size_t(li)].coord) + " given for cell " + cstr(c.coord));
}

static bool distinctCodes(const long* codes, long n) {
    for (long a = 0; a < n; ++a) for (long b = a + 1; b < n; ++b) if (codes[a] == codes[b]) return false;
    return true;
}

void Ctx::onM2M(const void* symb, long symbIndex, const Coord& symbCoord, long level, const std::vector<const void*>& children,
                const long* codes, long n, const void* parent, size_t bytes) {
    if (record && sim.active && guardDepth == 0) {
        for (auto p : children) sim.noteAccess(p, bytes, false, BUF_MULT);
        sim.noteAccess(parent, bytes, true, BUF_MULT);
    }
    if (!argcheck || !view) return;
    argchecks += 1;
    if (n < 1 || long(children.size()) != n) { addViolation("argcheck", "M2M.empty", "called with " + std::to_string(n) + " children"); return; }
    if (topTreeCall) {
        for (long k = 0; k < n; ++k) if (codes[k] < 0 || codes[k] >= 8) { addViolation("argcheck", "M2M.top.code-range", "child code " + std::to_string(codes[k])); return; }
        if (!distinctCodes(codes, n)) addViolation("argcheck", "M2M.top.duplicate-code", "duplicate child position code");
        if (view) for (long k = 0; k < n; ++k) {
            // the first top-tree step hands over the real level-1 cells of the tree: their codes must be their octants
            const int ci = TreeView::find(view->byMult, children[size_t(k)]);
            if (ci < 0) continue;
            const CellRec& c = view->cells[size_t(ci)];
            if (c.level == 1 && codes[k] != RefGrid::codeChild(c.coord))
                addViolation("argcheck", "M2M.top.child-code", "level-1 cell " + cstr(c.coord) + " handed to the top tree with position code " + std::to_string(codes[k]));
        }
        // data flow through the virtual levels: the children are the object M2M wrote one level below; the parent is THE object of this level
        const void* kobj = calls.empty() ? nullptr : calls.back().kthis;
        if (view && TreeView::find(view->byMult, children[0]) < 0) {
            auto below = topMult.find(std::make_pair(kobj, level + 1));
            if (below != topMult.end()) for (long k = 0; k < n; ++k) if (children[size_t(k)] != below->second) { addViolation("argcheck", "M2M.top.child-object", "a child at virtual level " + std::to_string(level + 1) + " is not the multipole M2M produced for that level"); break; }
        }
        auto here = topMult.find(std::make_pair(kobj, level));
        if (here != topMult.end() && here->second != parent) addViolation("argcheck", "M2M.top.parent-object", "virtual level " + std::to_string(level) + " is written into a different multipole than before");
        topMult[std::make_pair(kobj, level)] = parent;
        return;
    }
    const TreeView& v = *view;
    const int pi = TreeView::find(v.byMult, parent);
    if (pi < 0) { addViolation("argcheck", "M2M.unknown-parent", "output is not the multipole of any cell"); return; }
    const CellRec& p = v.cells[size_t(pi)];
    if (!calls.empty()) calls.back().trueLevel = p.level;
    if (p.level != level) addViolation("argcheck", "M2M.level", "level argument " + std::to_string(level) + " but the parent cell is at level " + std::to_string(p.level));
    if (p.level < upper || p.level > height - 2) addViolation("argcheck", "M2M.level-range", "parent level " + std::to_string(p.level) + " outside [upper, height-2]");
    if (TreeView::find(v.byCellHdr, symb) != pi || symbCoord != p.coord || symbIndex != p.spaceIndex) addViolation("argcheck", "M2M.header-mismatch", "symbolic data does not describe the parent " + cstr(p.coord));
    if (!distinctCodes(codes, n)) addViolation("argcheck", "M2M.duplicate-code", "duplicate child position code");
    std::set<int> seen;
    for (long k = 0; k < n; ++k) {
        const int ci = TreeView::find(v.byMult, children[size_t(k)]);
        if (ci < 0) { addViolation("argcheck", "M2M.unknown-child", "child is not the multipole of any cell"); continue; }
        const CellRec& c = v.cells[size_t(ci)];
        if (!seen.insert(ci).second) addViolation("argcheck", "M2M.duplicate-child", "same child given twice");
        if (c.level != p.level + 1 || c.tree != p.tree) addViolation("argcheck", "M2M.child-level", "child at level " + std::to_string(c.level));
        if (RefGrid::parent(c.coord) != p.coord) addViolation("argcheck", "M2M.not-a-child", "cell " + cstr(c.coord) + " is not a child of " + cstr(p.coord));
        const Coord oct = RefGrid::sub(c.coord, Coord{p.coord[0] * 2, p.coord[1] * 2, p.coord[2] * 2});
        if (codes[k] < 0 || codes[k] >= 8 || RefGrid::decodeChild(codes[k]) != oct)
            addViolation("argcheck", "M2M.child-code", "position code " + std::to_string(codes[k]) + " does not decode to octant " + cstr(oct));
    }
}

void Ctx::onL2L(const void* symb, long symbIndex, const Coord& symbCoord, long level, const void* parent,
                const std::vector<const void*>& children, const long* codes, long n, size_t bytes) {
    if (record && sim.active && guardDepth == 0) {
        sim.noteAccess(parent, bytes, false, BUF_LOCAL);
        for (auto p : children) sim.noteAccess(p, bytes, true, BUF_LOCAL);
    }
    if (!argcheck || !view) return;
    argchecks += 1;
    if (n < 1 || long(children.size()) != n) { addViolation("argcheck", "L2L.empty", "called with " + std::to_string(n) + " children"); return; }
    if (topTreeCall) {
        for (long k = 0; k < n; ++k) if (codes[k] < 0 || codes[k] >= 8) { addViolation("argcheck", "L2L.top.code-range", "child code " + std::to_string(codes[k])); return; }
        if (!distinctCodes(codes, n)) addViolation("argcheck", "L2L.top.duplicate-code", "duplicate child position code");
        if (view) for (long k = 0; k < n; ++k) {
            const int ci = TreeView::find(view->byLocal, children[size_t(k)]);
            if (ci < 0) continue;
            const CellRec& c = view->cells[size_t(ci)];
            if (c.level == 1 && codes[k] != RefGrid::codeChild(c.coord))
                addViolation("argcheck", "L2L.top.child-code", "level-1 cell " + cstr(c.coord) + " handed to the top tree with position code " + std::to_string(codes[k]));
        }
        const void* kobj = calls.empty() ? nullptr : calls.back().kthis;
        auto here = topLocal.find(std::make_pair(kobj, level));
        if (here != topLocal.end() && here->second != parent) addViolation("argcheck", "L2L.top.parent-object", "the parent at virtual level " + std::to_string(level) + " is not the local expansion M2L filled for that level");
        if (view && TreeView::find(view->byLocal, children[0]) < 0) {
            auto below = topLocal.find(std::make_pair(kobj, level + 1));
            if (below != topLocal.end()) for (long k = 0; k < n; ++k) if (children[size_t(k)] != below->second) { addViolation("argcheck", "L2L.top.child-object", "the child at virtual level " + std::to_string(level + 1) + " is not the local expansion M2L filled for that level"); break; }
        }
        return;
    }
    const TreeView& v = *view;
    const int pi = TreeView::find(v.byLocal, parent);
    if (pi < 0) { addViolation("argcheck", "L2L.unknown-parent", "input is not the local expansion of any cell"); return; }
    const CellRec& p = v.cells[size_t(pi)];
    if (!calls.empty()) calls.back().trueLevel = p.level;
    if (p.level != level) addViolation("argcheck", "L2L.level", "level argument " + std::to_string(level) + " but the parent cell is at level " + std::to_string(p.level));
    if (p.level < upper || p.level > height - 2) addViolation("argcheck", "L2L.level-range", "parent level " + std::to_string(p.level) + " outside [upper, height-2]");
    if (TreeView::find(v.byCellHdr, symb) != pi || symbCoord != p.coord || symbIndex != p.spaceIndex) addViolation("argcheck", "L2L.header-mismatch", "symbolic data does not describe the parent " + cstr(p.coord));
    if (!distinctCodes(codes, n)) addViolation("argcheck", "L2L.duplicate-code", "duplicate child position code");
    std::set<int> seen;
    for (long k = 0; k < n; ++k) {
        const int ci = TreeView::find(v.byLocal, children[size_t(k)]);
        if (ci < 0) { addViolation("argcheck", "L2L.unknown-child", "child is not the local expansion of any cell"); continue; }
        const CellRec& c = v.cells[size_t(ci)];
        if (!seen.insert(ci).second) addViolation("argcheck", "L2L.duplicate-child", "same child given twice");
        if (c.level != p.level + 1 || c.tree != p.tree) addViolation("argcheck", "L2L.child-level", "child at level " + std::to_string(c.level));
        if (RefGrid::parent(c.coord) != p.coord) addViolation("argcheck", "L2L.not-a-child", "cell " + cstr(c.coord) + " is not a child of " + cstr(p.coord));
        const Coord oct = RefGrid::sub(c.coord, Coord{p.coord[0] * 2, p.coord[1] * 2, p.coord[2] * 2});
        if (codes[k] < 0 || codes[k] >= 8 || RefGrid::decodeChild(codes[k]) != oct)
            addViolation("argcheck", "L2L.child-code", "position code " + std::to_string(codes[k]) + " does not decode to octant " + cstr(oct));
    }
}

void Ctx::onM2L(const void* symb, long symbIndex, const Coord& symbCoord, long level, const std::vector<const void*>& srcs,
                const long* codes, long n, const void* target, size_t srcBytes, size_t tgtBytes) {
    if (record && sim.active && guardDepth == 0) {
        for (auto p : srcs) sim.noteAccess(p, srcBytes, false, BUF_MULT);
        sim.noteAccess(target, tgtBytes, true, BUF_LOCAL);
    }
    if (!argcheck || !view) return;
    argchecks += 1;
    if (n < 1 || long(srcs.size()) != n) { addViolation("argcheck", "M2L.empty", "called with " + std::to_string(n) + " sources"); return; }
    if (topTreeCall) {
        for (long k = 0; k < n; ++k) {
            Coord off;
            if (!RefGrid::decodeM2L(codes[k], off)) { addViolation("argcheck", "M2L.top.code-range", "code " + std::to_string(codes[k])); return; }
            if (RefGrid::cheb(off) < 2) addViolation("argcheck", "M2L.top.adjacent", "offset " + cstr(off) + " is adjacent");
        }
        if (!distinctCodes(codes, n)) addViolation("argcheck", "M2L.top.duplicate-code", "duplicate position code");
        const void* kobj = calls.empty() ? nullptr : calls.back().kthis;
        auto src = topMult.find(std::make_pair(kobj, level));
        if (src != topMult.end()) for (long k = 0; k < n; ++k) if (srcs[size_t(k)] != src->second) { addViolation("argcheck", "M2L.top.source-object", "a source at virtual level " + std::to_string(level) + " is not the multipole M2M produced for that level"); break; }
        auto here = topLocal.find(std::make_pair(kobj, level));
        if (here != topLocal.end() && here->second != target) addViolation("argcheck", "M2L.top.target-object", "virtual level " + std::to_string(level) + " is transferred into a different local expansion than before");
        topLocal[std::make_pair(kobj, level)] = target;
        return;
    }
    const TreeView& v = *view;
    const int ti = TreeView::find(v.byLocal, target);
    if (ti < 0) { addViolation("argcheck", "M2L.unknown-target", "output is not the local expansion of any cell"); return; }
    const CellRec& t = v.cells[size_t(ti)];
    if (!calls.empty()) calls.back().trueLevel = t.level;
    if (t.level != level) addViolation("argcheck", "M2L.level", "level argument " + std::to_string(level) + " but the target cell is at level " + std::to_string(t.level));
    if (t.level < upper) addViolation("argcheck", "M2L.level-range", "target level " + std::to_string(t.level) + " above the upper working level");
    if (t.tree != (tsm ? 1 : 0)) addViolation("argcheck", "M2L.target-tree", "target cell belongs to the source tree");
    if (TreeView::find(v.byCellHdr, symb) != ti || symbCoord != t.coord || symbIndex != t.spaceIndex) addViolation("argcheck", "M2L.header-mismatch", "symbolic data does not describe the target " + cstr(t.coord));
    std::set<std::pair<int, long>> seenPair;
    std::set<int> seenCell;
    for (long k = 0; k < n; ++k) {
        const int si = TreeView::find(v.byMult, srcs[size_t(k)]);
        if (si < 0) { addViolation("argcheck", "M2L.unknown-source", "source is not the multipole of any cell"); continue; }
        const CellRec& s = v.cells[size_t(si)];
        if (s.level != t.level) addViolation("argcheck", "M2L.source-level", "source at level " + std::to_string(s.level));
        if (s.tree != 0) addViolation("argcheck", "M2L.source-tree", "source cell belongs to the target tree");
        Coord off;
        if (!RefGrid::decodeM2L(codes[k], off)) { addViolation("argcheck", "M2L.code-range", "code " + std::to_string(codes[k])); continue; }
        const Coord unwrapped = RefGrid::add(t.coord, off);
        const Coord expect = periodic ? RefGrid::wrap(unwrapped, t.level) : unwrapped;
        if (s.coord != expect) addViolation("argcheck", "M2L.offset", "source " + cstr(s.coord) + " is not at offset " + cstr(off) + " of target " + cstr(t.coord));
        if (RefGrid::cheb(off) < 2) addViolation("argcheck", "M2L.adjacent", "source at offset " + cstr(off) + " is not well separated");
        const Coord pu = Coord{unwrapped[0] >> 1, unwrapped[1] >> 1, unwrapped[2] >> 1};
        if (RefGrid::cheb(RefGrid::sub(pu, RefGrid::parent(t.coord))) > 1) addViolation("argcheck", "M2L.parent-not-adjacent", "parent of the source is not adjacent to the parent of the target");
        if (!seenPair.insert(std::make_pair(si, codes[k])).second) addViolation("argcheck", "M2L.duplicate-source", "same (source, code) given twice");
        if (!periodic && !seenCell.insert(si).second) addViolation("argcheck", "M2L.duplicate-cell", "same source cell given twice");
    }
}

void Ctx::onL2P(const void* symb, long symbIndex, const Coord& symbCoord, const void* local, size_t localBytes, const LeafArgs& leaf) {
    if (record && sim.active && guardDepth == 0) {
        sim.noteAccess(local, localBytes, false, BUF_LOCAL);
        for (auto p : leaf.data) sim.noteAccess(p, size_t(leaf.n) * (view ? view->dataElem : 8), false, BUF_PART_SYMB);
        for (auto p : leaf.rhs) sim.noteAccess(p, size_t(leaf.n) * (view ? view->rhsElem : 8), true, BUF_RHS);
    }
    if (!argcheck || !view) return;
    argchecks += 1;
    const TreeView& v = *view;
    const int expectTree = tsm ? 1 : 0;
    const int ci = TreeView::find(v.byLocal, local);
    if (ci < 0) { addViolation("argcheck", "L2P.unknown-cell", "input is not the local expansion of any cell"); return; }
    const CellRec& c = v.cells[size_t(ci)];
    if (c.level != height - 1 || c.tree != expectTree) addViolation("argcheck", "L2P.not-leaf-level", "input cell is at level " + std::to_string(c.level));
    if (TreeView::find(v.byCellHdr, symb) != ci || symbCoord != c.coord || symbIndex != c.spaceIndex) addViolation("argcheck", "L2P.header-mismatch", "symbolic data does not describe the input cell " + cstr(c.coord));
    checkLeafArgs(OP_L2P, leaf, expectTree, "leaf");
    const int li = TreeView::find(v.byIndexes, leaf.idx);
    if (li >= 0 && v.leaves[size_t(li)].coord != c.coord) addViolation("argcheck", "L2P.leaf-cell-mismatch", "particles of leaf " + cstr(v.leaves[size_t(li)].coord) + " given for cell " + cstr(c.coord));
}

void Ctx::onP2P(int op, const LeafArgs& src, const LeafArgs& tgt, long code) {
    if (record && sim.active && guardDepth == 0) {
        const size_t de = view ? view->dataElem : 8, re = view ? view->rhsElem : 8;
        for (auto p : src.data) sim.noteAccess(p, size_t(src.n) * de, false, BUF_PART_SYMB);
        for (auto p : tgt.data) sim.noteAccess(p, size_t(tgt.n) * de, false, BUF_PART_SYMB);
        for (auto p : src.rhs) sim.noteAccess(p, size_t(src.n) * re, true, BUF_RHS);
        for (auto p : tgt.rhs) sim.noteAccess(p, size_t(tgt.n) * re, true, BUF_RHS);
    }
    if (!argcheck || !view) return;
    argchecks += 1;
    const TreeView& v = *view;
    const std::string o = opName(op);
    checkLeafArgs(op, src, 0, "source");
    checkLeafArgs(op, tgt, tsm ? 1 : 0, "target");
    const int si = TreeView::find(v.byIndexes, src.idx), ti = TreeView::find(v.byIndexes, tgt.idx);
    if (si < 0 || ti < 0) return;
    const LeafRec& s = v.leaves[size_t(si)];
    const LeafRec& t = v.leaves[size_t(ti)];
    Coord off;
    if (!RefGrid::decodeP2P(code, off)) { addViolation("argcheck", o + ".code-range", "code " + std::to_string(code)); return; }
    const Coord unwrapped = RefGrid::add(t.coord, off);
    const Coord expect = periodic ? RefGrid::wrap(unwrapped, height - 1) : unwrapped;
    if (s.coord != expect) addViolation("argcheck", o + ".offset", "source leaf " + cstr(s.coord) + " is not at offset " + cstr(off) + " of target leaf " + cstr(t.coord));
    const long ch = RefGrid::cheb(off);
    if (op == OP_P2PTSM) { if (ch > 1) addViolation("argcheck", o + ".not-adjacent", "offset " + cstr(off)); }
    else {
        if (ch != 1) addViolation("argcheck", o + ".not-adjacent", "offset " + cstr(off) + " is not an adjacent-leaf offset");
        if (!periodic && si == ti) addViolation("argcheck", o + ".same-leaf", "mutual interaction of a leaf with itself");
    }
}

void Ctx::onP2PInner(const LeafArgs& leaf) {
    if (record && sim.active && guardDepth == 0) {
        const size_t de = view ? view->dataElem : 8, re = view ? view->rhsElem : 8;
        for (auto p : leaf.data) sim.noteAccess(p, size_t(leaf.n) * de, false, BUF_PART_SYMB);
        for (auto p : leaf.rhs) sim.noteAccess(p, size_t(leaf.n) * re, true, BUF_RHS);
    }
    if (!argcheck || !view) return;
    argchecks += 1;
    checkLeafArgs(OP_P2PINNER, leaf, 0, "leaf");
}

}  // namespace tbfsim
