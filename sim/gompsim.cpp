// gompsim: link-time replacement of libgomp for the entry points g++ 12 emits for tbfmm's OpenMP executors.
// The harness is compiled with -fopenmp and linked WITHOUT libgomp against this file, so every scheduling
// decision of "the OpenMP runtime" is taken by tbfsim::Sim.  See DESIGN.md 3.1-3.2 and appendix A.1.
#include "core.hpp"

#include <cstdlib>
#include <cstring>
#include <cstdio>

using tbfsim::g_sim;

namespace {
struct ArgBlock {
    void* raw = nullptr;
    void* aligned = nullptr;
};

ArgBlock allocBlock(long size, long align) {
    ArgBlock b;
    if (align < 1) align = 1;
    if (size < 1) size = 1;
    b.raw = std::malloc(size_t(size + align));
    const uintptr_t p = (reinterpret_cast<uintptr_t>(b.raw) + uintptr_t(align) - 1) & ~(uintptr_t(align) - 1);
    b.aligned = reinterpret_cast<void*>(p);
    return b;
}

int g_teamSize = 1;
bool g_inParallel = false;

void unsupported(const char* what) {
    if (g_sim) g_sim->errors.push_back(std::string("unsupported OpenMP construct: ") + what);
    std::fprintf(stderr, "gompsim: unsupported OpenMP construct %s\n", what);
}
}  // namespace

extern "C" {

// ------------------------------------------------------------------------------------------- GOMP_*
void GOMP_parallel(void (*fn)(void*), void* data, unsigned num_threads, unsigned /*flags*/) {
    if (!g_sim || g_inParallel) {   // nested parallel regions are serialised (one thread), as libgomp does by default
        fn(data);
        return;
    }
    int team = num_threads ? int(num_threads) : g_sim->maxThreads;
    if (g_sim->policy.teamShrink > 0 && team > 1) {
        int shr = g_sim->policy.teamShrink;
        if (shr > team - 1) shr = team - 1;
        team -= shr;
        g_sim->stats.teamSmaller += 1;
    }
    if (team < 1) team = 1;
    std::vector<int> ids;
    for (int i = 0; i < team; ++i) ids.push_back(i);
    g_teamSize = team;
    g_inParallel = true;
    { tbfsim::NoCount noCount; g_sim->beginRegion(ids, 0, true); }
    // implicit task of thread 0 (the only one that enters a `master` block)
    g_sim->curWorker = 0;
    fn(data);
    g_sim->waitAll();           // the implicit barrier at the end of the region completes every task
    // implicit tasks of the other threads: they skip `master`; run one after the other
    for (int tid = 1; tid < team; ++tid) {
        g_sim->curWorker = tid;
        g_sim->creatorId = tid;
        fn(data);
        g_sim->waitAll();
    }
    g_sim->curWorker = 0;
    g_sim->creatorId = 0;
    g_sim->endRegion();
    g_inParallel = false;
    g_teamSize = 1;
}

void GOMP_task(void (*fn)(void*), void* data, void (*cpyfn)(void*, void*), long arg_size, long arg_align,
               bool if_clause, unsigned flags, void** depend, int priority, void* /*detach*/) {
    tbfsim::NoCount noCount;
    enum { F_DEPEND = 8, F_PRIORITY = 16, F_DETACH = 8192 };
    if (flags & F_DETACH) unsupported("task detach");
    if (!g_sim || !g_sim->active) {   // orphaned task outside any simulated region: run it now
        if (cpyfn) {
            ArgBlock b = allocBlock(arg_size, arg_align);
            cpyfn(b.aligned, data);
            fn(b.aligned);
            std::free(b.raw);
        } else {
            fn(data);
        }
        return;
    }
    // libgomp copies the argument block at submission (cpyfn for non-trivially-copyable firstprivates)
    ArgBlock b = allocBlock(arg_size, arg_align);
    if (cpyfn) cpyfn(b.aligned, data); else std::memcpy(b.aligned, data, size_t(arg_size));

    std::vector<tbfsim::Dep> deps;
    if ((flags & F_DEPEND) && depend) {
        const uintptr_t n0 = reinterpret_cast<uintptr_t>(depend[0]);
        if (n0 != 0) {
            // old form: [n, n_out, out/inout addresses..., in addresses...]
            const uintptr_t n = n0, nout = reinterpret_cast<uintptr_t>(depend[1]);
            for (uintptr_t i = 0; i < n; ++i) deps.push_back(tbfsim::Dep{depend[2 + i], i < nout ? tbfsim::AM_W : tbfsim::AM_R});
        } else {
            // new form: [0, n, n_out, n_mutexinoutset, n_in, addresses..., (depobj entries)]
            const uintptr_t n = reinterpret_cast<uintptr_t>(depend[1]);
            const uintptr_t nout = reinterpret_cast<uintptr_t>(depend[2]);
            const uintptr_t nmtx = reinterpret_cast<uintptr_t>(depend[3]);
            const uintptr_t nin = reinterpret_cast<uintptr_t>(depend[4]);
            if (nout + nmtx + nin != n) unsupported("depobj dependences");
            for (uintptr_t i = 0; i < nout + nmtx + nin && i < n; ++i) {
                const int mode = i < nout ? tbfsim::AM_W : (i < nout + nmtx ? tbfsim::AM_C : tbfsim::AM_R);
                deps.push_back(tbfsim::Dep{depend[5 + i], mode});
            }
        }
    }
    void* raw = b.raw;
    void* arg = b.aligned;
    g_sim->submit([fn, arg, raw]() { fn(arg); std::free(raw); }, std::move(deps),
                  (flags & F_PRIORITY) ? priority : 0, !if_clause);
}

void GOMP_taskwait(void) {
    if (g_sim && g_sim->active) g_sim->waitChildren();
}

void GOMP_taskwait_depend(void** /*depend*/) {
    // conservative: wait for every child (a superset of what the construct requires)
    if (g_sim && g_sim->active) g_sim->waitChildren();
}

void GOMP_taskyield(void) {
    if (g_sim && g_sim->active) g_sim->point(tbfsim::PK_YIELD);
}

void GOMP_taskgroup_start(void) {}
void GOMP_taskgroup_end(void) {
    if (g_sim && g_sim->active) g_sim->waitChildren();
}

void GOMP_barrier(void) {
    if (g_teamSize > 1) unsupported("barrier inside a parallel region with more than one thread");
    if (g_sim && g_sim->active) g_sim->waitAll();
}

bool GOMP_single_start(void) {
    return !g_sim || g_sim->curWorker == 0;
}

void GOMP_critical_start(void) {}
void GOMP_critical_end(void) {}
void GOMP_critical_name_start(void**) {}
void GOMP_critical_name_end(void**) {}
void GOMP_atomic_start(void) {}
void GOMP_atomic_end(void) {}

// ------------------------------------------------------------------------------------------- omp_*
int omp_get_thread_num(void) { return (g_sim && g_sim->active) ? g_sim->curWorker : 0; }
int omp_get_num_threads(void) { return g_inParallel ? g_teamSize : 1; }
int omp_get_max_threads(void) { return g_sim ? g_sim->maxThreads : 1; }
void omp_set_num_threads(int n) { if (g_sim && n > 0) g_sim->maxThreads = n; }
int omp_get_num_procs(void) { return g_sim ? g_sim->maxThreads : 1; }
int omp_in_parallel(void) { return g_inParallel && g_teamSize > 1; }
int omp_get_level(void) { return g_inParallel ? 1 : 0; }
int omp_get_active_level(void) { return (g_inParallel && g_teamSize > 1) ? 1 : 0; }
int omp_get_thread_limit(void) { return 1 << 20; }
void omp_set_dynamic(int) {}
int omp_get_dynamic(void) { return 0; }
void omp_set_nested(int) {}
int omp_get_nested(void) { return 0; }
int omp_get_max_task_priority(void) { return 1 << 20; }
int omp_in_final(void) { return 0; }
double omp_get_wtime(void) { return g_sim ? double(g_sim->steps) * 1e-6 : 0.0; }   // simulated: scheduler steps
double omp_get_wtick(void) { return 1e-6; }

// locks: with a serialising scheduler a lock is never contended; a second acquisition by a nested task would be
// a deadlock in reality too (tasks here are never suspended at a lock), so it is reported.
// omp_lock_t is 4 bytes in GCC's omp.h: the state is kept in place.
void omp_init_lock(int* l) { *l = 0; }
void omp_destroy_lock(int* l) { *l = 0; }
void omp_set_lock(int* l) {
    if (*l) unsupported("omp_set_lock on a lock held by a suspended task");
    *l = 1;
}
void omp_unset_lock(int* l) { *l = 0; }
int omp_test_lock(int* l) {
    if (*l) return 0;
    *l = 1;
    return 1;
}

}  // extern "C"
