#!/bin/bash
# Applies a seeded change to a scratch copy of /repo's working tree (outside /repo and /verif, removed afterwards), runs the given
# checks against that copy (quick tier, reduced seeds unless SEEDS is set).  /repo itself is not touched, so other jobs may run.
# usage: tools/try_seeded.sh <patch.diff> <PROP> [<PROP> ...]      env: SEEDS, NOMIN=1, KEEP=1 (keep the scratch build for the next call)
set -u
cd "$(dirname "$0")/.."
patch="$(readlink -f "$1")"; shift
SCR=/var/tmp/tbfsim_try_repo; BLD=/var/tmp/tbfsim_try_build; EV=/var/tmp/tbfsim_try_ev
rm -rf "$SCR"; mkdir -p "$SCR"
rsync -a --exclude _build --exclude .git /repo/ "$SCR/"
if ! ( cd "$SCR" && patch -p1 -s -i "$patch" ); then echo "patch does not apply"; rm -rf "$SCR"; exit 2; fi
for p in "$@"; do
  out=$(TBFSIM_REPO="$SCR" TBFSIM_BUILD="$BLD" python3 tools/check.py "$p" ${SEEDS:+--seeds $SEEDS} --evidence-dir "$EV" --replay-dir "$EV" ${NOMIN:+--no-minimise} 2>&1); rc=$?
  echo "== $p exit=$rc"; echo "$out" | grep -E "^violation|^FRAMEWORK|^OK" | cut -c1-300 | head -6
done
rm -rf "$SCR" "$EV"; [ -n "${KEEP:-}" ] || rm -rf "$BLD"
