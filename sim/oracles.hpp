#ifndef TBFSIM_ORACLES_HPP
#define TBFSIM_ORACLES_HPP

#include "probe.hpp"
#include "scenario.hpp"

namespace tbfsim {

// Oracle B: every pair of observed conflicting accesses is ordered or mutually exclusive by declaration.
// Returns the number of conflicting pairs examined.
long checkRaces(Ctx& ctx);

// Oracle A helpers -------------------------------------------------------------------------------
// byte comparison of two views with identical structure (same input, same parameters); kinds = bitmask of BufKind
// to compare.  cls/prefix name the violation.
void compareViews(Ctx& ctx, const TreeView& got, const TreeView& expect, unsigned kindsMask, const std::string& cls,
                  const std::string& what);
// compare a view against a snapshot of itself
void compareSnapshot(Ctx& ctx, const TreeView& v, const Snapshot& before, unsigned kindsMask, const std::string& cls,
                     const std::string& what);
// every input particle is held by exactly one leaf of its tree (an empty or truncated tree must not pass vacuously)
void checkComplete(Ctx& ctx, const TreeView& v, const std::string& cls);
std::string locate(const TreeView& v, size_t bufIndex, size_t offset);
// floating-point kernels: expansions and results compared as arrays of double, |a-b| <= tol * (max |expected| of the array)
void compareViewsTol(Ctx& ctx, const TreeView& got, const TreeView& expect, double tol, const std::string& cls, const std::string& what);

// C12 (ii): bytes changed by one execute(flags) call lie in the call's write set.
void checkWriteSet(Ctx& ctx, const TreeView& v, const Snapshot& before, int flags);
// C12 (iii): operators called by one execute(flags) call; [firstCall, calls.size()) is the range of the call log
void checkCallLog(Ctx& ctx, size_t firstCall, int flags);

// Reference evaluation of the WeightKernel FMM on refgrid (independent of the library's traversal code).
struct RefValues {
    std::map<std::tuple<int, int, Coord>, std::array<unsigned long, 2>> mult, local;   // (tree, level, coord)
    std::map<std::pair<int, long>, std::array<unsigned long, 2>> rhs;                // (tree, original index)
    std::array<long, 7> counts{{0, 0, 0, 0, 0, 0, 0}};                               // P2M M2M M2L L2L L2P P2P P2PInner
};
// leaves are taken from the view (coordinates as the tree stores them, indices per leaf); one entry of flagSeq per
// execute() call, applied in order to a state that starts at zero; counts are summed over the calls
RefValues refEvaluate(const Ctx& ctx, const TreeView& v, const std::vector<int>& flagSeq);
// compare tree contents with RefValues (WeightKernel layout: 2 x unsigned long everywhere)
void compareWithRef(Ctx& ctx, const TreeView& v, const RefValues& ref, const std::string& cls, bool cells, bool results);

}  // namespace tbfsim
#endif
