#!/usr/bin/env python3
"""Determinism self-test (not a registered check): every (seed, sub-run) must produce the same event-log hash, the same
scheduler-decision count and the same violation list in two independent executions with different worker counts
(16 and 3 processes, ASLR on).  usage: tools/selftest_determinism.py [--seeds N] [--props C03,C12] [--flavours plain,asan]"""
import argparse, os, sys, time
sys.path.insert(0, os.path.dirname(os.path.abspath(__file__)))
import check

def collect(flavour, prop, seeds, workers, base):
    res, cr, fw = [], [], []
    check.run_batch(flavour, prop, "quick", base, seeds, workers, res, cr, fw, time.time() + 3600)
    m = {}
    for r in res:
        m[(r["seed"], r["sub"])] = (r["hash"], r["decisions"], r["steps"], tuple(sorted((v["cls"], v["site"]) for v in r["viol"])))
    return m, cr

def main():
    ap = argparse.ArgumentParser()
    ap.add_argument("--seeds", type=int, default=2000)
    ap.add_argument("--props", default="C02,C03,C09,C12,C13,C15,C18")
    ap.add_argument("--flavours", default="plain,asan")
    ap.add_argument("--base", type=int, default=424242)
    a = ap.parse_args()
    check.build(a.flavours.split(","))
    bad = 0
    for fl in a.flavours.split(","):
        for prop in a.props.split(","):
            n = a.seeds if fl == "plain" else max(50, a.seeds // 8)
            if prop == "C12": n = max(10, n // 30)
            m1, c1 = collect(fl, prop, n, 16, a.base)
            m2, c2 = collect(fl, prop, n, 3, a.base)
            diff = [k for k in m1 if m2.get(k) != m1[k]] + [k for k in m2 if k not in m1]
            print("%s %s: %d runs compared, %d differ, crashes %d/%d" % (fl, prop, len(m1), len(diff), len(c1), len(c2)))
            for k in diff[:5]:
                print("   ", k, m1.get(k), m2.get(k))
            bad += len(diff)
    sys.exit(1 if bad else 0)

if __name__ == "__main__":
    main()
