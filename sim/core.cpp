#include "core.hpp"

#include <algorithm>
#include <cstdio>
#include <cstdlib>

namespace tbfsim {

Sim* g_sim = nullptr;
int g_noCount = 0;

static inline void setBit(std::vector<uint64_t>& v, int i) {
    const size_t w = size_t(i) >> 6;
    if (v.size() <= w) v.resize(w + 1, 0);
    v[w] |= (uint64_t(1) << (i & 63));
}
static inline bool getBit(const std::vector<uint64_t>& v, int i) {
    const size_t w = size_t(i) >> 6;
    return w < v.size() && ((v[w] >> (i & 63)) & 1);
}
static inline void orInto(std::vector<uint64_t>& dst, const std::vector<uint64_t>& src) {
    if (dst.size() < src.size()) dst.resize(src.size(), 0);
    for (size_t i = 0; i < src.size(); ++i) dst[i] |= src[i];
}

void Sim::resetLogs() {
    decisions.clear();
    eventHash = 0;
    steps = 0;
    stats = Stats();
    observed.clear();
    errors.clear();
    replayPos = 0;
}

void Sim::beginRegion(const std::vector<int>& inWorkerIds, int inCreatorId, bool inCreatorRunsTasks) {
    if (active) { errors.push_back("nested region"); return; }
    active = true;
    workerIds = inWorkerIds;
    creatorId = inCreatorId;
    creatorRunsTasks = inCreatorRunsTasks;
    busyTaskOfWorker.assign(workerIds.size(), -1);
    tasks.clear();
    addrs.clear();
    curTask = -1;
    curWorker = creatorId;
    depth = 0;
    rrNext = 0;
    scribbled = false;
    unfinished = 0;
    readyVec.clear();
    nestPairs.clear();
    invPairs.clear();
    hasCommutative = false;
    firstPending = 0;
    eventHash = mix64(eventHash, 0xB0000000ULL + workerIds.size());
}

void Sim::endRegion() {
    if (unfinished != 0) errors.push_back("region ended with unfinished tasks");
    eventHash = mix64(eventHash, 0xE0000000ULL + tasks.size());
    active = false;
}

int Sim::nameOf(const void* addr) {
    auto it = addrName.find(addr);
    if (it != addrName.end()) return it->second;
    // unknown address: name it by order of first appearance (deterministic), never by value
    const int id = int(names.size());
    names.push_back("?" + std::to_string(id));
    addrName[addr] = id;
    return id;
}

void Sim::registerName(const void* addr, const std::string& name) {
    auto it = addrName.find(addr);
    if (it != addrName.end()) { names[it->second] = name; return; }
    addrName[addr] = int(names.size());
    names.push_back(name);
}

void Sim::clearNames() { addrName.clear(); names.clear(); }

static uint64_t hashStr(const std::string& s) {
    uint64_t h = 1469598103934665603ULL;
    for (unsigned char c : s) { h ^= c; h *= 1099511628211ULL; }
    return h;
}

int Sim::submit(std::function<void()> body, std::vector<Dep> deps, int priority, bool undeferred) {
    NoCount noCount;
    // merge duplicate addresses, strongest mode wins
    std::vector<Dep> merged;
    for (const Dep& d : deps) {
        bool found = false;
        for (Dep& m : merged) {
            if (m.addr == d.addr) {
                if (m.mode != d.mode) m.mode = AM_W;
                found = true;
                break;
            }
        }
        if (!found) merged.push_back(d);
    }

    const int id = int(tasks.size());
    tasks.emplace_back(new Task());
    Task& t = *tasks.back();
    t.id = id;
    t.parent = curTask;
    t.body = std::move(body);
    t.deps = merged;
    t.priority = priority;

    uint64_t lh = 0x7A5C;
    for (const Dep& d : merged) {
        auto key = std::make_pair(t.parent, d.addr);
        auto it = addrs.find(key);
        if (it == addrs.end()) {
            it = addrs.emplace(key, std::unique_ptr<AddrState>(new AddrState())).first;
            it->second->nameId = nameOf(d.addr);
        }
        AddrState& as = *it->second;
        if (!as.groups.empty() && as.groups.back().mode == d.mode && d.mode != AM_W) {
            // join the last group (maximal run of readers / of commutative writers)
            Group& g = as.groups.back();
            if (d.mode == AM_C) {
                for (int other : g.tasks) { setBit(t.mutex, other); setBit(tasks[other]->mutex, id); }
            }
            g.tasks.push_back(id);
            const size_t gi = as.groups.size() - 1;
            if (as.firstIncomplete > gi) as.firstIncomplete = gi;
        } else {
            as.groups.emplace_back();
            as.groups.back().mode = d.mode;
            as.groups.back().tasks.push_back(id);
        }
        const int gi = int(as.groups.size()) - 1;
        t.slots.emplace_back(static_cast<void*>(&as), gi);
        if (size_t(gi) > as.firstIncomplete) t.waiting += 1;
        if (d.mode == AM_C) hasCommutative = true;
        if (gi > 0) {
            for (int p : as.groups[gi - 1].tasks) { setBit(t.pred, p); orInto(t.pred, tasks[p]->pred); }
        }
        lh = mix64(lh, hashStr(names[as.nameId]) * 4 + uint64_t(d.mode));
    }
    t.labelHash = lh;
    if (t.waiting == 0) readyVec.push_back(id);
    if (t.parent >= 0) tasks[t.parent]->unfinishedChildren += 1;
    unfinished += 1;
    stats.tasks += 1;
    eventHash = mix64(eventHash, 0xC0000000ULL ^ lh ^ (uint64_t(id) << 40) ^ (uint64_t(uint32_t(priority)) << 8));

    if (undeferred) {
        // if(false) task: the encountering thread suspends until the task can run, then runs it itself
        int guard = 0;
        while (!ready(t) && guard++ < 1000000) {
            point(PK_WAIT);
            if (t.state != 0) return id;
        }
        if (t.state == 0) {
            int wi = -1;
            for (size_t i = 0; i < workerIds.size(); ++i) if (workerIds[i] == curWorker) wi = int(i);
            if (wi < 0 || (busyTaskOfWorker[wi] != -1 && busyTaskOfWorker[wi] != curTask)) wi = -1;
            runTask(id, wi, PK_CREATE);
        }
        return id;
    }
    point(PK_CREATE);
    return id;
}

bool Sim::blockedByMutex(const Task& t) const {
    if (!hasCommutative) return false;
    for (const auto& s : t.slots) {
        const AddrState& as = *static_cast<const AddrState*>(s.first);
        const Group& g = as.groups[size_t(s.second)];
        if (g.mode == AM_C && g.inflight > 0) return true;
    }
    return false;
}

bool Sim::ready(const Task& t) const {
    return t.state == 0 && t.waiting == 0 && !blockedByMutex(t);
}

void Sim::makeReady(int id) {
    auto it = std::lower_bound(readyVec.begin(), readyVec.end(), id);
    readyVec.insert(it, id);
}

bool Sim::hb(int a, int b) const { return a < b && getBit(tasks[b]->pred, a); }
bool Sim::mutexed(int a, int b) const { return getBit(tasks[a]->mutex, b); }

std::string Sim::taskLabel(int id) const {
    if (id < 0 || id >= int(tasks.size())) return "creator";
    const Task& t = *tasks[id];
    std::string s = "t" + std::to_string(id) + "[";
    static const char* mn[] = {"in:", "out:", "commute:"};
    bool first = true;
    for (const auto& sl : t.slots) {
        const AddrState& as = *static_cast<const AddrState*>(sl.first);
        if (!first) s += " ";
        first = false;
        s += mn[as.groups[size_t(sl.second)].mode];
        s += names[as.nameId];
    }
    s += "]";
    return s;
}

__attribute__((noinline)) void Sim::scribble() {
    // An ordinary deep call: it only writes its own frame, i.e. memory below every live frame, which is
    // where the returned frames of the creator's helper functions used to be.
    volatile unsigned char buf[256 * 1024];
    for (size_t i = 0; i < sizeof(buf); ++i) buf[i] = 0xA5;
    __asm__ __volatile__("" ::"r"(&buf[0]) : "memory");
    stats.scribbles += 1;
}

void Sim::scribbleStack() { if (allowScribble && policy.scribble) scribble(); }

int Sim::chooseTask(const std::vector<int>& r) {
    switch (policy.pick) {
        case PICK_FIFO: return 0;
        case PICK_LIFO: return int(r.size()) - 1;
        case PICK_UNIFORM: return int(rng.below(r.size()));
        case PICK_PRIO_HIGH: {
            int best = 0;
            for (size_t i = 1; i < r.size(); ++i) if (tasks[r[i]]->priority > tasks[r[best]]->priority) best = int(i);
            return best;
        }
        case PICK_PRIO_LOW: {
            int best = 0;
            for (size_t i = 1; i < r.size(); ++i) if (tasks[r[i]]->priority <= tasks[r[best]]->priority) best = int(i);
            return best;
        }
    }
    return 0;
}

int Sim::chooseWorker(const std::vector<int>& idle) {
    // idle holds indices into workerIds; returns a position in `idle` or -1
    if (idle.empty()) return -1;
    switch (policy.workerMode) {
        case WK_UNIFORM: return int(rng.below(idle.size()));
        case WK_ROUNDROBIN: {
            for (size_t k = 0; k < workerIds.size(); ++k) {
                const int want = int((size_t(rrNext) + k) % workerIds.size());
                for (size_t i = 0; i < idle.size(); ++i) if (idle[i] == want) { rrNext = want + 1; return int(i); }
            }
            return 0;
        }
        case WK_LOWEST: return 0;
        case WK_FIXED: {
            const int want = int(size_t(policy.fixedWorker) % workerIds.size());
            for (size_t i = 0; i < idle.size(); ++i) if (idle[i] == want) return int(i);
            return -1;
        }
        case WK_NOT_CREATOR: {
            std::vector<int> pos;
            for (size_t i = 0; i < idle.size(); ++i) if (workerIds[idle[i]] != creatorId) pos.push_back(int(i));
            if (pos.empty()) return (workerIds.size() == 1) ? 0 : -1;
            return pos[rng.below(pos.size())];
        }
    }
    return 0;
}

void Sim::runTask(int id, int wi, int kind) {
    Task& t = *tasks[id];
    t.state = 1;
    t.worker = (wi >= 0) ? workerIds[wi] : curWorker;
    if (wi >= 0 && busyTaskOfWorker[wi] == -1) busyTaskOfWorker[wi] = id; else wi = -1;
    for (const auto& s : t.slots) {
        AddrState& as = *static_cast<AddrState*>(s.first);
        Group& g = as.groups[size_t(s.second)];
        g.inflight += 1;
        if (g.mode == AM_C) {
            for (int other : g.tasks) { if (other == id) break; if (tasks[other]->state != 2) { stats.commutativeReordered += 1; break; } }
        }
    }
    {
        auto it = std::lower_bound(readyVec.begin(), readyVec.end(), id);
        if (it != readyVec.end() && *it == id) readyVec.erase(it);
        while (firstPending < tasks.size() && tasks[firstPending]->state != 0) firstPending += 1;
        if (firstPending < size_t(id)) { stats.inversions += 1; if (invPairs.size() < 4096) invPairs.emplace_back(id, int(firstPending)); }
    }
    if (depth > 0) { stats.overlaps += 1; if (curTask >= 0 && nestPairs.size() < 4096) nestPairs.emplace_back(id, curTask); }
    if (kind == PK_WAIT) stats.deferredToWait += 1;
    if (t.createdBeforeScribble) stats.ranAfterScribble += 1;
    stats.startedAt[kind] += 1;
    tasksStarted += 1;
    eventHash = mix64(eventHash, 0x50000000ULL ^ (uint64_t(id) << 32) ^ (uint64_t(uint32_t(t.worker)) << 8) ^ uint64_t(depth));

    const int savedTask = curTask, savedWorker = curWorker;
    curTask = id;
    curWorker = t.worker;
    depth += 1;
    if (depth > stats.maxDepth) stats.maxDepth = depth;
    {
        const int savedNoCount = g_noCount;
        g_noCount = 0;          // the task body is library code again
        t.body();
        g_noCount = savedNoCount;
    }
    depth -= 1;
    curTask = savedTask;
    curWorker = savedWorker;
    t.body = nullptr;

    if (t.unfinishedChildren > 0) {
        // children outlive the parent body only until the end of the region; nothing to do here
    }
    t.state = 2;
    for (const auto& s : t.slots) {
        AddrState& as = *static_cast<AddrState*>(s.first);
        Group& g = as.groups[size_t(s.second)];
        g.inflight -= 1;
        g.done += 1;
        while (as.firstIncomplete < as.groups.size()
               && as.groups[as.firstIncomplete].done == int(as.groups[as.firstIncomplete].tasks.size())) {
            as.firstIncomplete += 1;
            if (as.firstIncomplete < as.groups.size()) {
                for (int nx : as.groups[as.firstIncomplete].tasks) {
                    Task& nt = *tasks[size_t(nx)];
                    if (nt.state == 0 && nt.waiting > 0) { nt.waiting -= 1; if (nt.waiting == 0) makeReady(nx); }
                }
            }
        }
    }
    if (wi >= 0) busyTaskOfWorker[wi] = -1;
    if (t.parent >= 0) tasks[t.parent]->unfinishedChildren -= 1;
    unfinished -= 1;
    eventHash = mix64(eventHash, 0xD0000000ULL ^ (uint64_t(id) << 32) ^ uint64_t(t.nbCallbacks));
}

// One scheduling point.  CREATE / YIELD: start zero or more tasks.  WAIT: start exactly one task if possible.
bool g_deep = false;

void Sim::point(int kind) {
    if (!active) return;
    NoCount noCount;
    for (int iter = 0; iter < 64; ++iter) {
        const long ordinal = steps++;
        stats.points[kind] += 1;

        bool start;
        Decision rd{-1, -1, 0};
        bool haveReplayDecision = false;
        if (replayMode) {
            while (replayPos < replay.size() && long(replay[replayPos].ordinal) < ordinal) replayPos += 1;
            if (replayPos < replay.size() && long(replay[replayPos].ordinal) == ordinal) {
                rd = replay[replayPos++];
                haveReplayDecision = true;
            }
            start = haveReplayDecision || kind == PK_WAIT;
        } else {
            start = (kind == PK_WAIT) ? true : rng.chance(kind == PK_CREATE ? policy.pCreate : (kind == PK_DEEP ? policy.pDeep : policy.pYield));
        }
        if (!start) return;

        std::vector<int> filtered;
        if (hasCommutative) { for (int r : readyVec) if (!blockedByMutex(*tasks[size_t(r)])) filtered.push_back(r); }
        const std::vector<int>& readySet = hasCommutative ? filtered : readyVec;
        if (readySet.empty()) return;
        std::vector<int> idle;
        for (size_t i = 0; i < workerIds.size(); ++i) {
            if (busyTaskOfWorker[i] != -1) continue;
            if (workerIds[i] == creatorId && !creatorRunsTasks) continue;
            idle.push_back(int(i));
        }
        if (idle.empty()) return;

        int pickPos, workerPos;
        if (replayMode) {
            pickPos = haveReplayDecision ? int(size_t(rd.pick < 0 ? 0 : rd.pick) % readySet.size()) : 0;
            workerPos = haveReplayDecision ? int(size_t(rd.worker < 0 ? 0 : rd.worker) % idle.size()) : 0;
        } else {
            pickPos = chooseTask(readySet);
            workerPos = chooseWorker(idle);
            if (workerPos < 0) {
                if (kind == PK_WAIT && depth == 0) workerPos = 0; else return;
            }
        }
        // statistics on priorities
        if (readySet.size() <= 256) { for (int r : readySet) if (tasks[size_t(r)]->priority > tasks[size_t(readySet[size_t(pickPos)])]->priority) { stats.prioInversions += 1; break; } }

        decisions.push_back(Decision{int(ordinal), pickPos, workerPos});
        const int chosen = readySet[size_t(pickPos)];
        runTask(chosen, idle[size_t(workerPos)], kind);
        if (kind == PK_WAIT) return;
    }
}

void Sim::waitAll() {
    if (!active) return;
    if (depth == 0 && policy.scribble && allowScribble && !scribbled && unfinished > 0) {
        scribbled = true;
        for (auto& tp : tasks) if (tp->state == 0) tp->createdBeforeScribble = true;
        scribble();
    }
    while (unfinished > 0) {
        const long before = tasksStarted;
        point(PK_WAIT);
        if (tasksStarted == before) {
            stats.stuck += 1;
            errors.push_back("stuck: unfinished tasks but none can start (depth " + std::to_string(depth) + ")");
            break;
        }
    }
}

void Sim::waitChildren() {
    if (!active) return;
    if (curTask < 0) { waitAll(); return; }
    while (tasks[curTask]->unfinishedChildren > 0) {
        const long before = tasksStarted;
        point(PK_WAIT);
        if (tasksStarted == before) {
            stats.stuck += 1;
            errors.push_back("stuck in nested taskwait (unsupported by the nesting simulator)");
            break;
        }
    }
}

void Sim::noteCallback(int kind, long level) {
    NoCount noCount;
    eventHash = mix64(eventHash, 0xCB000000ULL ^ (uint64_t(uint32_t(curTask + 1)) << 32) ^ (uint64_t(uint32_t(curWorker + 1)) << 24)
                                     ^ (uint64_t(kind) << 16) ^ uint64_t(depth));   // the level argument is not hashed: it may be garbage when the code under test is wrong
    if (curTask >= 0 && curTask < int(tasks.size())) {
        Task& t = *tasks[curTask];
        if (t.nbCallbacks == 0) { t.firstKind = kind; t.firstLevel = level; }
        t.nbCallbacks += 1;
    }
}

void Sim::noteAccess(const void* lo, size_t bytes, bool write, int what) {
    NoCount noCount;
    if (!bytes) return;
    const unsigned char* p = static_cast<const unsigned char*>(lo);
    observed.push_back(ObservedAccess{p, p + bytes, curTask, write, what});
}

}  // namespace tbfsim

// ---------------------------------------------------------------------------------------------
// Function-boundary preemption: translation units compiled with -finstrument-functions (the worlds of the shipped
// floating-point kernels) call these at the entry and exit of every library function, inlined ones included.  Inside a
// kernel callback of a simulated task this is one more scheduling point, so that another ready task can run between two
// steps of ONE kernel operator (state that a routine keeps outside its arguments is then exposed).
extern "C" {
__attribute__((no_instrument_function)) void __cyg_profile_func_enter(void*, void*) {
    if (!tbfsim::g_deep) return;
    tbfsim::g_deep = false;            // not re-entered from the scheduler or from the nested task's own executor code
    tbfsim::g_sim->point(tbfsim::PK_DEEP);
    tbfsim::g_deep = true;
}
__attribute__((no_instrument_function)) void __cyg_profile_func_exit(void*, void*) {
    if (!tbfsim::g_deep) return;
    tbfsim::g_deep = false;
    tbfsim::g_sim->point(tbfsim::PK_DEEP);
    tbfsim::g_deep = true;
}
}
