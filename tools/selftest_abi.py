#!/usr/bin/env python3
"""ABI self-test (not a registered check): the same harness objects linked against the REAL libgomp (one thread) run the
C03 / C09 / C12 workloads; no violation attributed to those properties may appear.  A misreading of the GOMP entry points, of the
argument block or of the depend array in sim/gompsim.cpp would make the simulated and the real runtime execute different programs."""
import json, os, subprocess, sys
sys.path.insert(0, os.path.dirname(os.path.abspath(__file__)))
import check
root = check.ROOT
r = subprocess.run(["make", "-C", root, "-j16", "plain", "realgomp"], stdout=subprocess.PIPE, stderr=subprocess.STDOUT, text=True)
if r.returncode != 0:
    print(r.stdout[-3000:]); sys.exit(2)
known = check.load_known()
bad = 0
for prop in ("C03", "C09", "C12"):
    env = dict(os.environ, OMP_NUM_THREADS="1")
    n = int(os.environ.get("ABI_SEEDS", "300"))
    p = subprocess.run([os.path.join(check.BUILD, "tbfsim_realgomp"), "--prop", prop, "--base", "77", "--count", str(n)], stdout=subprocess.PIPE, stderr=subprocess.DEVNULL, text=True, env=env)
    runs = viol = 0
    for line in p.stdout.splitlines():
        if not line.startswith("RESULT "): continue
        res = json.loads(line[7:]); runs += 1
        for v in res.get("viol", []):
            if check.belongs(prop, v, res) and not check.known_match(known, prop, check.vkey(res, v)) and v["cls"] != "quiescence":
                viol += 1; print("  ", prop, res["seed"], res["sub"], v["cls"], v["site"])
    print("%s: %d runs under the real libgomp (OMP_NUM_THREADS=1), %d violations" % (prop, runs, viol))
    bad += viol
    if runs == 0: bad += 1
sys.exit(1 if bad else 0)
