// Type-erased view of a tbfmm tree (addresses, headers, buffers), byte snapshots, and the independent
// integer reference model of the grid hierarchy (`refgrid`, DESIGN.md 4.2).  Nothing here calls the
// library's index code.
#ifndef TBFSIM_MODEL_HPP
#define TBFSIM_MODEL_HPP

#include <array>
#include <cstdint>
#include <cstring>
#include <map>
#include <set>
#include <string>
#include <vector>

namespace tbfsim {

using Coord = std::array<long, 3>;

enum OpKind : int { OP_P2M = 0, OP_M2M, OP_M2L, OP_L2L, OP_L2P, OP_P2P, OP_P2PINNER, OP_P2PTSM, OP_NB };
inline const char* opName(int k) {
    static const char* n[] = {"P2M", "M2M", "M2L", "L2L", "L2P", "P2P", "P2PInner", "P2PTsm"};
    return (k >= 0 && k < OP_NB) ? n[k] : "?";
}

// library flag values (src/algorithms/tbfalgorithmutils.hpp), restated so that non-template code can use them
enum : int { F_P2P = 1, F_P2M = 2, F_M2M = 4, F_M2L = 8, F_L2L = 16, F_L2P = 32, F_ALL = 63 };

enum BufKind : int { BUF_CELL_SYMB = 0, BUF_MULT, BUF_LOCAL, BUF_PART_SYMB, BUF_RHS, BUF_NB };
inline const char* bufName(int k) {
    static const char* n[] = {"cell-headers", "multipoles", "locals", "particle-data", "particle-rhs"};
    return (k >= 0 && k < BUF_NB) ? n[k] : "?";
}

struct BufRec {
    int tree;          // 0: the tree (or the source tree), 1: the target tree
    int kind;          // BufKind
    int level;         // cell level, or -1 for particle groups
    int group;         // ordinal of the group at that level
    unsigned char* ptr;
    size_t bytes;
    std::string name() const {
        return std::string(tree ? "T" : "S") + "." + bufName(kind) + (level >= 0 ? ".L" + std::to_string(level) : "") + ".g" + std::to_string(group);
    }
};

struct CellRec {
    int tree, level, group, idx;
    Coord coord;                 // from the cell header (the cell's identity)
    long spaceIndex;
    const unsigned char* hdr;
    unsigned char* mult;  size_t multBytes;    // multBytes == 0 when the tree stores no multipoles
    unsigned char* local; size_t localBytes;
};

struct LeafRec {
    int tree, group, idx;
    Coord coord;
    long spaceIndex;
    long n;
    long offset;
    const unsigned char* hdr;
    const long* indexes;
    std::vector<unsigned char*> data;   // NbData pointers (element size dataElem)
    std::vector<unsigned char*> rhs;    // NbRhs pointers (element size rhsElem)
};

struct TreeView {
    int height = 0;
    int nbTrees = 1;
    size_t dataElem = 0, rhsElem = 0;
    int nbData = 0, nbRhs = 0;
    std::vector<BufRec> bufs;
    std::vector<CellRec> cells;
    std::vector<LeafRec> leaves;
    std::map<const void*, int> byMult, byLocal, byCellHdr;       // -> index in cells
    std::map<const void*, int> byLeafHdr, byIndexes, byData0, byRhs0;   // -> index in leaves
    std::map<std::tuple<int, int, Coord>, int> cellAt;           // (tree, level, coord) -> cells index
    std::map<std::pair<int, Coord>, int> leafAt;                 // (tree, coord) -> leaves index

    void index() {
        byMult.clear(); byLocal.clear(); byCellHdr.clear(); byLeafHdr.clear(); byIndexes.clear(); byData0.clear(); byRhs0.clear();
        cellAt.clear(); leafAt.clear();
        for (size_t i = 0; i < cells.size(); ++i) {
            const CellRec& c = cells[i];
            if (c.multBytes) byMult[c.mult] = int(i);
            if (c.localBytes) byLocal[c.local] = int(i);
            byCellHdr[c.hdr] = int(i);
            cellAt[std::make_tuple(c.tree, c.level, c.coord)] = int(i);
        }
        for (size_t i = 0; i < leaves.size(); ++i) {
            const LeafRec& l = leaves[i];
            byLeafHdr[l.hdr] = int(i);
            byIndexes[l.indexes] = int(i);
            if (!l.data.empty()) byData0[l.data[0]] = int(i);
            if (!l.rhs.empty() && l.rhs[0]) byRhs0[l.rhs[0]] = int(i);
            leafAt[std::make_pair(l.tree, l.coord)] = int(i);
        }
    }
    static int find(const std::map<const void*, int>& m, const void* p) {
        auto it = m.find(p);
        return it == m.end() ? -1 : it->second;
    }
};

// Byte snapshot of every buffer of a view.
struct Snapshot {
    std::vector<std::vector<unsigned char>> data;
    void take(const TreeView& v) {
        data.resize(v.bufs.size());
        for (size_t i = 0; i < v.bufs.size(); ++i) data[i].assign(v.bufs[i].ptr, v.bufs[i].ptr + v.bufs[i].bytes);
    }
};

// ---------------------------------------------------------------------------------------------
// refgrid: integer model of the hierarchy over a set of occupied leaf coordinates.
struct RefGrid {
    int height = 0;
    bool periodic = false;
    // occupied cells per level, per tree (tree 0 = sources / the tree, tree 1 = targets)
    std::vector<std::set<Coord>> occ[2];

    void build(int inHeight, bool inPeriodic, const std::vector<Coord>& leaves0, const std::vector<Coord>& leaves1) {
        height = inHeight;
        periodic = inPeriodic;
        const std::vector<Coord>* src[2] = {&leaves0, &leaves1};
        for (int t = 0; t < 2; ++t) {
            occ[t].assign(size_t(height > 0 ? height : 0), std::set<Coord>());
            if (height <= 0) continue;
            for (const Coord& c : *src[t]) occ[t][size_t(height - 1)].insert(c);
            for (int l = height - 2; l >= 0; --l)
                for (const Coord& c : occ[t][size_t(l + 1)]) occ[t][size_t(l)].insert(parent(c));
        }
    }
    static Coord parent(const Coord& c) { return Coord{c[0] >> 1, c[1] >> 1, c[2] >> 1}; }
    static long cheb(const Coord& a) {
        long m = 0;
        for (int d = 0; d < 3; ++d) { const long v = a[d] < 0 ? -a[d] : a[d]; if (v > m) m = v; }
        return m;
    }
    static Coord sub(const Coord& a, const Coord& b) { return Coord{a[0] - b[0], a[1] - b[1], a[2] - b[2]}; }
    static Coord add(const Coord& a, const Coord& b) { return Coord{a[0] + b[0], a[1] + b[1], a[2] + b[2]}; }
    static Coord wrap(const Coord& a, int level) {
        const long n = 1L << level;
        return Coord{((a[0] % n) + n) % n, ((a[1] % n) + n) % n, ((a[2] % n) + n) % n};
    }
    static bool inside(const Coord& a, int level) {
        const long n = 1L << level;
        for (int d = 0; d < 3; ++d) if (a[d] < 0 || a[d] >= n) return false;
        return true;
    }
    // position-code conventions (DESIGN appendix A.5): most significant digit = dimension 0
    static long codeM2L(const Coord& off) { return ((off[0] + 3) * 7 + (off[1] + 3)) * 7 + (off[2] + 3); }
    static long codeP2P(const Coord& off) { return ((off[0] + 1) * 3 + (off[1] + 1)) * 3 + (off[2] + 1); }
    static long codeChild(const Coord& oct) { return (oct[0] << 2) | (oct[1] << 1) | oct[2]; }
    static bool decodeM2L(long code, Coord& off) {
        if (code < 0 || code >= 343) return false;
        off = Coord{code / 49 - 3, (code / 7) % 7 - 3, code % 7 - 3};
        return true;
    }
    static bool decodeP2P(long code, Coord& off) {
        if (code < 0 || code >= 27) return false;
        off = Coord{code / 9 - 1, (code / 3) % 3 - 1, code % 3 - 1};
        return true;
    }
    static Coord decodeChild(long code) { return Coord{(code >> 2) & 1, (code >> 1) & 1, code & 1}; }

    // (offset, source coordinate) pairs of the interaction list of `target` at `level`: children of the parent's
    // neighbours that are not adjacent to the target; periodic images are distinct entries.
    template <class Func>
    void forInteractionList(const Coord& target, int level, Func&& f) const {
        if (level < (periodic ? 1 : 2)) return;
        const Coord par = parent(target);
        for (long dx = -1; dx <= 1; ++dx) for (long dy = -1; dy <= 1; ++dy) for (long dz = -1; dz <= 1; ++dz) {
            const Coord np = add(par, Coord{dx, dy, dz});
            if (!periodic && !inside(np, level - 1)) continue;
            for (long ox = 0; ox < 2; ++ox) for (long oy = 0; oy < 2; ++oy) for (long oz = 0; oz < 2; ++oz) {
                const Coord child{np[0] * 2 + ox, np[1] * 2 + oy, np[2] * 2 + oz};
                const Coord off = sub(child, target);
                if (cheb(off) <= 1) continue;
                f(off, periodic ? wrap(child, level) : child);
            }
        }
    }
    template <class Func>
    void forNeighbours(const Coord& target, int level, Func&& f) const {
        for (long dx = -1; dx <= 1; ++dx) for (long dy = -1; dy <= 1; ++dy) for (long dz = -1; dz <= 1; ++dz) {
            if (!dx && !dy && !dz) continue;
            const Coord off{dx, dy, dz};
            const Coord o = add(target, off);
            if (!periodic && !inside(o, level)) continue;
            f(off, periodic ? wrap(o, level) : o);
        }
    }
};

}  // namespace tbfsim
#endif
