// Probe kernels (template arguments of the library's executors; no change to /repo) and the run context
// they report to: Recorder + ArgCheck (C02) + yield points, and the exactly additive WeightKernel.
#ifndef TBFSIM_PROBE_HPP
#define TBFSIM_PROBE_HPP

#include "core.hpp"
#include "model.hpp"

#include <array>
#include <functional>
#include <map>
#include <set>
#include <string>
#include <vector>

namespace tbfsim {

uint64_t wkHashFwd(uint64_t key, uint64_t a, uint64_t b, uint64_t c);

struct Violation {
    std::string cls;      // violation class (stable identifier used for known findings and shrinking)
    std::string site;     // short site key: operator/clause, file:line, buffer kind ...
    std::string detail;   // human readable
    std::string task;     // task label, if any
};

struct CallRec { int op; long level; int task; int worker; const void* kthis; long n; long trueLevel; };

struct LeafArgs {
    const void* hdr; long hdrSpaceIndex; Coord hdrCoord; long hdrNb;
    const long* idx;
    std::vector<const void*> data;
    std::vector<void*> rhs;
    long n;
};

// Everything the probe kernels need to know about the current run.
struct Ctx {
    Sim sim;
    uint64_t runKey = 0;
    uint64_t kernelParam = 0;   // WeightKernel::param of the kernel object handed to the executor (0: kernels built from the configuration)

    // geometry of the run (set by the world when it builds the tree)
    int height = 0;
    bool periodic = false;
    long upper = 2;
    double corner[3] = {0, 0, 0};
    double width[3] = {1, 1, 1};
    bool isFloat = false;
    // data values beyond x,y,z,weight ("extra data values") are a fixed function of the original index
    double extraData(long index, size_t k) const { return double(wkHashFwd(runKey, 0xE7, uint64_t(index), uint64_t(k)) >> 12) * (1.0 / 4503599627370496.0); }

    // the tree(s) whose buffers are currently handed to kernels, and the input particles by original index
    const TreeView* view = nullptr;
    std::vector<std::array<double, 4>> inputs[2];   // [tree] -> index -> x,y,z,w
    bool tsm = false;
    // periodic top-tree algorithm: the expansion object it used for each virtual level, per kernel object (cleared when an executor is built):
    // what M2M wrote at level l is what M2L reads at level l and what M2M at level l-1 aggregates; same chain downwards for the locals
    std::map<std::pair<const void*, long>, const void*> topMult, topLocal;
    bool topTreeCall = false;       // set by the world while the periodic top-tree algorithm runs (virtual levels)

    // switches
    bool argcheck = true;
    bool record = true;
    bool yields = true;

    // outputs
    std::vector<Violation> viol;
    std::vector<CallRec> calls;
    std::map<const void*, std::set<int>> kernelWorkers;
    long callbacks = 0;
    int guardDepth = 0;
    long argchecks = 0;
    size_t maxViol = 64;

    void addViolation(const std::string& cls, const std::string& site, const std::string& detail);
    void resetRun();

    // ---- probe entry points (non-template) ----
    void enter(int op, long level, const void* kthis, long n);
    void leave();
    void checkLeafArgs(int op, const LeafArgs& a, int expectTree, const char* role);
    void onP2M(const void* symb, long symbIndex, const Coord& symbCoord, const LeafArgs& leaf, const void* mult, size_t multBytes);
    void onM2M(const void* symb, long symbIndex, const Coord& symbCoord, long level, const std::vector<const void*>& children,
               const long* codes, long n, const void* parent, size_t bytes);
    void onM2L(const void* symb, long symbIndex, const Coord& symbCoord, long level, const std::vector<const void*>& srcs,
               const long* codes, long n, const void* target, size_t srcBytes, size_t tgtBytes);
    void onL2L(const void* symb, long symbIndex, const Coord& symbCoord, long level, const void* parent,
               const std::vector<const void*>& children, const long* codes, long n, size_t bytes);
    void onL2P(const void* symb, long symbIndex, const Coord& symbCoord, const void* local, size_t localBytes, const LeafArgs& leaf);
    void onP2P(int op, const LeafArgs& src, const LeafArgs& tgt, long code);
    void onP2PInner(const LeafArgs& leaf);
};

extern Ctx* g_ctx;

// ---------------------------------------------------------------------------------------------
// hashing used by the WeightKernel and its reference evaluation
inline uint64_t wkHash(uint64_t key, uint64_t a, uint64_t b, uint64_t c) {
    uint64_t h = mix64(key ^ 0x5851F42D4C957F2DULL, a);
    h = mix64(h, b + 0x100);
    h = mix64(h, c + 0x10000);
    return h | 1ULL;
}
inline uint64_t wkHashFwd(uint64_t key, uint64_t a, uint64_t b, uint64_t c) { return wkHash(key, a, b, c); }
inline uint64_t wkWeight(uint64_t key, int tree, long index) {
    return (wkHash(key, 0xA11CE, uint64_t(tree), uint64_t(index)) & ((1ULL << 40) - 1)) | 1ULL;
}
enum : uint64_t { WK_IDX = 1, WK_M2M_A, WK_M2M_B, WK_M2L_A, WK_M2L_B, WK_L2L_A, WK_L2L_B, WK_L2P_A, WK_L2P_B, WK_P2P_A, WK_TGT };

template <class Header>
inline void headerFields(const Header& h, long& spaceIndex, Coord& coord) {
    spaceIndex = long(h.spaceIndex);
    coord = Coord{h.boxCoord[0], h.boxCoord[1], h.boxCoord[2]};
}

// ---------------------------------------------------------------------------------------------
// Probe<Inner>: records, validates and forwards every kernel callback; yields before and after.
template <class Inner, bool Guard = false>
class Probe : public Inner {
    // Guard = true: argument validation only (no recording, no yields); used INSIDE a wrapper kernel such as the
    // interaction counter, so that what the wrapper forwards to the wrapped kernel is validated too
    void begin(Ctx& c, int op, long level, long n) { if (Guard) c.guardDepth += 1; else c.enter(op, level, this, n); }
    void checked(Ctx& c) { if (Guard) c.guardDepth -= 1; }
    void end(Ctx& c) { if (!Guard) c.leave(); }

    template <class Hdr, class DataArr>
    static LeafArgs leafArgs(const Hdr& hdr, const long* idx, const DataArr& data, long n) {
        LeafArgs a;
        a.hdr = &hdr;
        headerFields(hdr, a.hdrSpaceIndex, a.hdrCoord);
        a.hdrNb = -1;
        a.idx = idx;
        for (size_t k = 0; k < data.size(); ++k) a.data.push_back(data[k]);
        a.n = n;
        return a;
    }
    template <class RhsArr>
    static void addRhs(LeafArgs& a, RhsArr& rhs) { for (size_t k = 0; k < rhs.size(); ++k) a.rhs.push_back(rhs[k]); }

    // the cell arguments an operator receives as const inputs must come back bit-identical (the operator "writes only its own outputs")
    struct ConstSnap {
        std::vector<std::pair<const unsigned char*, std::vector<unsigned char>>> items;
        void add(const void* p, size_t n) {
            const unsigned char* b = static_cast<const unsigned char*>(p);
            items.emplace_back(b, std::vector<unsigned char>(b, b + n));
        }
        void check(Ctx& c, const char* site, const char* what) const {
            for (const auto& it : items) if (std::memcmp(it.first, it.second.data(), it.second.size()) != 0) {
                c.addViolation("writeset", site, std::string("the kernel's ") + what + " changed a cell it receives as a const input");
                return;
            }
        }
    };

public:
    using Inner::Inner;
    Probe(const Inner& in) : Inner(in) {}
    Probe(const Probe&) = default;
    Probe& operator=(const Probe&) = default;

    template <class CellSymbolicData, class ParticlesClass, class LeafClass>
    void P2M(const CellSymbolicData& symb, const long int idx[], const ParticlesClass& data, const long int n, LeafClass& leaf) {
        NoCount noCount;
        Ctx& c = *g_ctx;
        begin(c, OP_P2M, -1, n);
        long si; Coord sc; headerFields(symb, si, sc);
        LeafArgs la = leafArgs(symb, idx, data, n);
        la.hdr = nullptr;   // P2M/L2P receive the *cell* header, not the particle-leaf header
        c.onP2M(&symb, si, sc, la, &leaf, sizeof(LeafClass));
        checked(c);
        { DeepScope deep; Inner::P2M(symb, idx, data, n, leaf); }
        end(c);
    }

    template <class CellSymbolicData, class CellClassContainer, class CellClass>
    void M2M(const CellSymbolicData& symb, const long int level, const CellClassContainer& lower, CellClass& upper,
             const long int pos[], const long int n) {
        NoCount noCount;
        Ctx& c = *g_ctx;
        begin(c, OP_M2M, level, n);
        long si; Coord sc; headerFields(symb, si, sc);
        std::vector<const void*> ch;
        for (long k = 0; k < n && k < long(lower.size()); ++k) ch.push_back(&lower[size_t(k)].get());
        c.onM2M(&symb, si, sc, level, ch, pos, n, &upper, sizeof(CellClass));
        checked(c);
        ConstSnap cs;
        using ChildType = typename std::decay<decltype(lower[0].get())>::type;
        for (const void* p : ch) cs.add(p, sizeof(ChildType));
        { DeepScope deep; Inner::M2M(symb, level, lower, upper, pos, n); }
        cs.check(c, "M2M.const-children", "M2M");
        end(c);
    }

    template <class CellSymbolicData, class CellClassContainer, class CellClass>
    void M2L(const CellSymbolicData& symb, const long int level, const CellClassContainer& srcs, const long int pos[],
             const long int n, CellClass& target) {
        NoCount noCount;
        Ctx& c = *g_ctx;
        begin(c, OP_M2L, level, n);
        long si; Coord sc; headerFields(symb, si, sc);
        std::vector<const void*> sv;
        for (long k = 0; k < n && k < long(srcs.size()); ++k) sv.push_back(&srcs[size_t(k)].get());
        using SrcType = typename std::decay<decltype(srcs[0].get())>::type;
        c.onM2L(&symb, si, sc, level, sv, pos, n, &target, sizeof(SrcType), sizeof(CellClass));
        checked(c);
        ConstSnap cs;
        if (!sv.empty()) for (size_t k = 0, first = size_t(c.calls.size()) % sv.size(); k < 4 && k < sv.size(); ++k) cs.add(sv[(first + k) % sv.size()], sizeof(SrcType));   // a few of the (up to 316) sources
        { DeepScope deep; Inner::M2L(symb, level, srcs, pos, n, target); }
        cs.check(c, "M2L.const-sources", "M2L");
        end(c);
    }

    template <class CellSymbolicData, class CellClass, class CellClassContainer>
    void L2L(const CellSymbolicData& symb, const long int level, const CellClass& upper, CellClassContainer& lower,
             const long int pos[], const long int n) {
        NoCount noCount;
        Ctx& c = *g_ctx;
        begin(c, OP_L2L, level, n);
        long si; Coord sc; headerFields(symb, si, sc);
        std::vector<const void*> ch;
        for (long k = 0; k < n && k < long(lower.size()); ++k) ch.push_back(&lower[size_t(k)].get());
        c.onL2L(&symb, si, sc, level, &upper, ch, pos, n, sizeof(CellClass));
        checked(c);
        ConstSnap cs;
        cs.add(&upper, sizeof(CellClass));
        { DeepScope deep; Inner::L2L(symb, level, upper, lower, pos, n); }
        cs.check(c, "L2L.const-parent", "L2L");
        end(c);
    }

    template <class CellSymbolicData, class LeafClass, class ParticlesClassValues, class ParticlesClassRhs>
    void L2P(const CellSymbolicData& symb, const LeafClass& leaf, const long int idx[], const ParticlesClassValues& data,
             ParticlesClassRhs& rhs, const long int n) {
        NoCount noCount;
        Ctx& c = *g_ctx;
        begin(c, OP_L2P, -1, n);
        long si; Coord sc; headerFields(symb, si, sc);
        LeafArgs la = leafArgs(symb, idx, data, n);
        la.hdr = nullptr;
        addRhs(la, rhs);
        c.onL2P(&symb, si, sc, &leaf, sizeof(LeafClass), la);
        checked(c);
        { DeepScope deep; Inner::L2P(symb, leaf, idx, data, rhs, n); }
        end(c);
    }

    template <class LeafSymbolicData, class ParticlesClassValues, class ParticlesClassRhs>
    void P2P(const LeafSymbolicData& srcHdr, const long int srcIdx[], const ParticlesClassValues& srcData, ParticlesClassRhs& srcRhs,
             const long int nSrc, const LeafSymbolicData& tgtHdr, const long int tgtIdx[], const ParticlesClassValues& tgtData,
             ParticlesClassRhs& tgtRhs, const long int nTgt, const long code) {
        NoCount noCount;
        Ctx& c = *g_ctx;
        begin(c, OP_P2P, -1, nSrc * nTgt);
        LeafArgs s = leafArgs(srcHdr, srcIdx, srcData, nSrc); s.hdrNb = long(srcHdr.nbParticles); addRhs(s, srcRhs);
        LeafArgs t = leafArgs(tgtHdr, tgtIdx, tgtData, nTgt); t.hdrNb = long(tgtHdr.nbParticles); addRhs(t, tgtRhs);
        c.onP2P(OP_P2P, s, t, code);
        checked(c);
        { DeepScope deep; Inner::P2P(srcHdr, srcIdx, srcData, srcRhs, nSrc, tgtHdr, tgtIdx, tgtData, tgtRhs, nTgt, code); }
        end(c);
    }

    template <class LeafSymbolicDataSource, class ParticlesClassValuesSource, class LeafSymbolicDataTarget,
              class ParticlesClassValuesTarget, class ParticlesClassRhs>
    void P2PTsm(const LeafSymbolicDataSource& srcHdr, const long int srcIdx[], const ParticlesClassValuesSource& srcData,
                const long int nSrc, const LeafSymbolicDataTarget& tgtHdr, const long int tgtIdx[],
                const ParticlesClassValuesTarget& tgtData, ParticlesClassRhs& tgtRhs, const long int nTgt, const long code) {
        NoCount noCount;
        Ctx& c = *g_ctx;
        begin(c, OP_P2PTSM, -1, nSrc * nTgt);
        LeafArgs s = leafArgs(srcHdr, srcIdx, srcData, nSrc); s.hdrNb = long(srcHdr.nbParticles);
        LeafArgs t = leafArgs(tgtHdr, tgtIdx, tgtData, nTgt); t.hdrNb = long(tgtHdr.nbParticles); addRhs(t, tgtRhs);
        c.onP2P(OP_P2PTSM, s, t, code);
        checked(c);
        { DeepScope deep; Inner::P2PTsm(srcHdr, srcIdx, srcData, nSrc, tgtHdr, tgtIdx, tgtData, tgtRhs, nTgt, code); }
        end(c);
    }

    template <class LeafSymbolicData, class ParticlesClassValues, class ParticlesClassRhs>
    void P2PInner(const LeafSymbolicData& hdr, const long int idx[], const ParticlesClassValues& data, ParticlesClassRhs& rhs,
                  const long int n) {
        NoCount noCount;
        Ctx& c = *g_ctx;
        begin(c, OP_P2PINNER, -1, n * n - n);
        LeafArgs l = leafArgs(hdr, idx, data, n); l.hdrNb = long(hdr.nbParticles); addRhs(l, rhs);
        c.onP2PInner(l);
        checked(c);
        { DeepScope deep; Inner::P2PInner(hdr, idx, data, rhs, n); }
        end(c);
    }
};

}  // namespace tbfsim
#endif
