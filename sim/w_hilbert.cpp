// Worlds: Hilbert ordering, WeightKernel, sequential + OpenMP executors.
#include "world_impl.hpp"
#include "spacial/tbfhilbertspaceindex.hpp"
#include "algorithms/openmp/tbfopenmpalgorithm.hpp"
#include "algorithms/openmp/tbfopenmpalgorithmtsm.hpp"

namespace tbfsim {

template <class Cfg> struct AlgoSelect<Cfg, EX_OMP> { using type = TbfOpenmpAlgorithm<typename Cfg::Real, Probe<typename Cfg::Inner>, typename Cfg::Space>; };
template <class Cfg> struct AlgoSelect<Cfg, EX_OMP_TSM> { using type = TbfOpenmpAlgorithmTsm<typename Cfg::Real, Probe<typename Cfg::Inner>, typename Cfg::Space>; };

struct CfgWeightHilbert : CfgCommon {
    using Real = double;
    using Space = TbfHilbertSpaceIndex<3, TbfSpacialConfiguration<double, 3>, false>;
    static constexpr long NbData = 4;
    static constexpr bool periodic = false;
    static constexpr bool canRebuild = true;
    static constexpr bool hasCounters = false;
    using Inner = WeightKernel<Real, Space>;
    using Rhs = unsigned long;
    static constexpr long NbRhs = 2;
    using Mult = std::array<unsigned long, 2>;
    using Loc = std::array<unsigned long, 2>;
};

#define REG(key, Cfg, Ex) static WorldRegistrar reg_##Cfg##_##Ex(key, [](const Scenario& s) { return std::unique_ptr<IWorld>(new World<Cfg, Ex>(s)); })
REG("hilbert/weight/seq", CfgWeightHilbert, EX_SEQ);
REG("hilbert/weight/omp", CfgWeightHilbert, EX_OMP);
REG("hilbert/weight/seqtsm", CfgWeightHilbert, EX_SEQ_TSM);
REG("hilbert/weight/omptsm", CfgWeightHilbert, EX_OMP_TSM);

}  // namespace tbfsim
