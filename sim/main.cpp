// tbfsim worker / replayer.
//   tbfsim --prop C03 --tier quick --base <seed> --stripe <i> --of <n> --count <m>     batch of seeds (line protocol below)
//   tbfsim --replay <file.json>                                                         one explicit scenario
//   tbfsim --prop P --tier T --base B --indices i,j,k                                  these batch indices, in this order, in one process
//   tbfsim --emit --prop C03 --seed <s> --sub <k>                                       print the explicit scenario of (seed, sub)
// Line protocol on stdout: START <seed> | STAGE <seed> <sub> <stage> | RESULT <json> | DONE <seed> | CRASH <seed> <sub> <stage> <what>
#include "recipes.hpp"

#include <csignal>
#include <cstdio>
#include <cstdlib>
#include <cstring>
#include <fstream>
#include <sstream>
#include <unistd.h>
#include <unordered_set>
#include <chrono>
#include <algorithm>

using namespace tbfsim;

// ---------------------------------------------------------------------------------------------
static char g_stageBuf[256] = "startup";
static unsigned long long g_curSeed = 0;
static int g_curSub = 0;

namespace tbfsim {
void setStage(const char* stage) {
    std::snprintf(g_stageBuf, sizeof g_stageBuf, "%s", stage);
    // the supervisor needs the stage when the process dies without being able to say so (sanitizer abort, kill)
    std::printf("STAGE %llu %d %s\n", g_curSeed, g_curSub, g_stageBuf);
    std::fflush(stdout);
}
}

static volatile int g_crashPrinted = 0;
static void crashLine(const char* what) {
    if (g_crashPrinted) return;      // one CRASH line per process: the first one names the cause
    g_crashPrinted = 1;
    char buf[512];
    const int n = std::snprintf(buf, sizeof buf, "\nCRASH %llu %d %s %s\n", g_curSeed, g_curSub, g_stageBuf, what);
    if (n > 0) { ssize_t w = write(1, buf, size_t(n)); (void)w; }
}

#ifndef TBFSIM_ASAN
// ---- plain flavour: count live heap blocks allocated by library code (Oracle E) ----
template <class T> struct MallocAlloc {
    using value_type = T;
    MallocAlloc() {}
    template <class U> MallocAlloc(const MallocAlloc<U>&) {}
    T* allocate(size_t n) { return static_cast<T*>(std::malloc(n * sizeof(T))); }
    void deallocate(T* p, size_t) { std::free(p); }
    template <class U> bool operator==(const MallocAlloc<U>&) const { return true; }
    template <class U> bool operator!=(const MallocAlloc<U>&) const { return false; }
};
static bool g_track = false;
static std::unordered_set<void*, std::hash<void*>, std::equal_to<void*>, MallocAlloc<void*>>* g_live = nullptr;

static void* trackedNew(size_t n) {
    void* p = std::malloc(n ? n : 1);
    if (!p) throw std::bad_alloc();
    if (g_track && tbfsim::g_noCount == 0) { tbfsim::g_noCount += 1; g_live->insert(p); tbfsim::g_noCount -= 1; }
    return p;
}
static void trackedDelete(void* p) {
    if (!p) return;
    if (g_track) { tbfsim::g_noCount += 1; g_live->erase(p); tbfsim::g_noCount -= 1; }
    std::free(p);
}
void* operator new(size_t n) { return trackedNew(n); }
void* operator new[](size_t n) { return trackedNew(n); }
void operator delete(void* p) noexcept { trackedDelete(p); }
void operator delete[](void* p) noexcept { trackedDelete(p); }
void operator delete(void* p, size_t) noexcept { trackedDelete(p); }
void operator delete[](void* p, size_t) noexcept { trackedDelete(p); }

namespace tbfsim {
bool flavourIsPlain() { return true; }
long liveAllocations() { return g_live ? long(g_live->size()) : -1; }
}

static void onSignal(int sig) {
    char w[32];
    std::snprintf(w, sizeof w, "signal=%d", sig);
    crashLine(w);
    _exit(70);
}
static void installHandlers() {
    // alternate stack so that a stack overflow is reported too
    static char alt[1 << 16];
    stack_t ss; ss.ss_sp = alt; ss.ss_size = sizeof alt; ss.ss_flags = 0;
    sigaltstack(&ss, nullptr);
    struct sigaction sa; std::memset(&sa, 0, sizeof sa);
    sa.sa_handler = onSignal; sa.sa_flags = SA_ONSTACK;
    for (int s : {SIGSEGV, SIGBUS, SIGFPE, SIGILL, SIGABRT}) sigaction(s, &sa, nullptr);
    g_live = new (std::malloc(sizeof *g_live)) std::unordered_set<void*, std::hash<void*>, std::equal_to<void*>, MallocAlloc<void*>>();
    g_track = true;
}
#else
// ---- asan flavour: sanitizer reports become violation records ----
extern "C" {
void __asan_set_error_report_callback(void (*)(const char*));
int __lsan_do_recoverable_leak_check(void);
__attribute__((used)) const char* __asan_default_options() {
    return "detect_stack_use_after_return=1:halt_on_error=0:detect_leaks=1:exitcode=77:suppress_equal_pcs=0:"
           "max_uar_stack_size_log=22:allocator_may_return_null=1:print_summary=0:handle_abort=1";
}
__attribute__((used)) const char* __ubsan_default_options() { return "print_stacktrace=1:halt_on_error=1:exitcode=78"; }
}
static int g_asanReports = 0;
static void asanReport(const char* text) {
    // first line: "==pid==ERROR: AddressSanitizer: <kind> on address ..."; site: first frame inside /repo/src
    std::string t(text ? text : "");
    std::string kind = "unknown";
    size_t p = t.find("AddressSanitizer: ");
    if (p != std::string::npos) { size_t e = t.find_first_of(" \n", p + 18); kind = t.substr(p + 18, e - (p + 18)); }
    std::string site = "?";
    size_t q = std::string::npos;
    for (const char* dir : {"/src/algorithms/", "/src/core/", "/src/containers/", "/src/kernels/", "/src/spacial/", "/src/utils/", "/src/loader/"}) {
        const size_t f = t.find(dir);
        if (f != std::string::npos && f < q) q = f;
    }
    if (q != std::string::npos) { q -= 5; size_t e = t.find_first_of(" \n)", q + 10); site = t.substr(q + 10, e - (q + 10)); size_t c2 = site.rfind(':'); size_t c1 = c2 == std::string::npos ? c2 : site.rfind(':', c2 - 1); if (c1 != std::string::npos && c1 > 0 && site.find(".hpp") < c1) site = site.substr(0, c2); }
    g_asanReports += 1;
    if (kind == "SEGV" || kind == "ABRT" || kind == "FPE" || kind == "BUS" || kind == "ILL" || kind == "stack-overflow") {
        crashLine(("asan:" + kind + " at " + site).c_str());
        return;
    }
    if (tbfsim::g_ctx) {
        tbfsim::NoCount nc;
        tbfsim::g_ctx->addViolation("asan:" + kind, site, "AddressSanitizer: " + kind + " at " + site + " (stage " + g_stageBuf + ")");
    }
}
namespace tbfsim {
bool flavourIsPlain() { return false; }
long liveAllocations() { return -1; }
}
extern "C" void __sanitizer_set_death_callback(void (*)(void));
static void onSanitizerDeath() { crashLine("sanitizer-abort"); }
static void installHandlers() { __asan_set_error_report_callback(asanReport); __sanitizer_set_death_callback(onSanitizerDeath); }
#endif

// ---------------------------------------------------------------------------------------------
static uint64_t deriveSeed(uint64_t base, uint64_t n) {
    uint64_t x = base * 0x9E3779B97F4A7C15ULL + n;
    return Prng::splitmix(x) >> 1;   // keep it positive in JSON
}

static bool g_leakSeen = false;
static int runOne(Scenario& sc, bool always) {
    g_curSeed = sc.seed;
    g_curSub = sc.sub;
    std::printf("STAGE %llu %d begin\n", (unsigned long long)sc.seed, sc.sub);
    std::fflush(stdout);
    const auto t0 = std::chrono::steady_clock::now();
    Json r = runScenario(sc);
    r.set("ms", (long)std::chrono::duration_cast<std::chrono::milliseconds>(std::chrono::steady_clock::now() - t0).count());
#ifdef TBFSIM_ASAN
    setStage("leak-check");
    if (!g_leakSeen && __lsan_do_recoverable_leak_check()) {
        g_leakSeen = true;   // the recoverable check keeps reporting an old leak: this process must be replaced
        Json v = Json::object();
        v.set("cls", "asan:leak").set("site", "lsan").set("detail", "LeakSanitizer: memory still allocated and unreachable after the run").set("task", "").set("where", "run");
        Json va = r.at("viol"); va.push(v); r.set("viol", va);
        if (!r.has("scenario")) { Scenario full = sc; r.set("scenario", full.toJson()); }
    }
#endif
    const bool bad = !r.at("viol").a.empty() || !r.at("fw_errors").a.empty();
    if (always && !r.has("scenario")) { Scenario full = sc; full.haveDecisions = true; full.decisions = g_ctx->sim.decisions; r.set("scenario", full.toJson()); }
    std::string line = "RESULT ";
    r.dump(line);
    std::printf("%s\n", line.c_str());
    std::fflush(stdout);
    return bad ? 1 : 0;
}

int main(int argc, char** argv) {
    std::string prop = "C03", tier = "quick", replay;
    uint64_t base = 1, seed = 0;
    long stripe = 0, of = 1, count = 1, from = 0;
    int sub = -1;
    bool emit = false, haveSeed = false, listWorlds = false;
    std::string indicesArg;   // explicit batch indices, run in this order in this one process (replay of a process history)
    for (int i = 1; i < argc; ++i) {
        std::string a = argv[i];
        auto next = [&]() -> std::string { return (i + 1 < argc) ? std::string(argv[++i]) : std::string(); };
        if (a == "--prop") prop = next();
        else if (a == "--tier") tier = next();
        else if (a == "--base") base = std::strtoull(next().c_str(), nullptr, 10);
        else if (a == "--stripe") stripe = std::atol(next().c_str());
        else if (a == "--of") of = std::atol(next().c_str());
        else if (a == "--count") count = std::atol(next().c_str());
        else if (a == "--from") from = std::atol(next().c_str());
        else if (a == "--indices") indicesArg = next();
        else if (a == "--replay") replay = next();
        else if (a == "--emit") emit = true;
        else if (a == "--seed") { seed = std::strtoull(next().c_str(), nullptr, 10); haveSeed = true; }
        else if (a == "--sub") sub = std::atoi(next().c_str());
        else if (a == "--worlds") listWorlds = true;
        else { std::fprintf(stderr, "unknown argument %s\n", a.c_str()); return 2; }
    }
    setenv("TBFMM_BLOCK_SIZE", "4", 1);   // never let the automatic block size read the machine
    static Ctx ctx;
    g_ctx = &ctx;
    g_sim = &ctx.sim;
    installHandlers();
    if (listWorlds) { for (auto& kv : worldRegistry()) std::printf("%s\n", kv.first.c_str()); return 0; }
    const bool plain = flavourIsPlain();

    if (!replay.empty()) {
        std::ifstream in(replay);
        if (!in) { std::fprintf(stderr, "cannot read %s\n", replay.c_str()); return 2; }
        std::stringstream ss; ss << in.rdbuf();
        Json j;
        try { j = Json::parse(ss.str()); } catch (const std::exception& e) { std::fprintf(stderr, "bad replay file: %s\n", e.what()); return 2; }
        Scenario sc = Scenario::fromJson(j.has("scenario") ? j.at("scenario") : j);
        std::printf("START %llu\n", (unsigned long long)sc.seed);
        const int rc = runOne(sc, true);
        std::printf("DONE %llu\n", (unsigned long long)sc.seed);
        return rc;
    }
    if (emit || haveSeed) {
        Scenario sc = generate(prop, seed, tier, plain);
        const int K = schedulesPer(prop, tier);
        int rc = 0;
        for (int k = 0; k < K; ++k) {
            if (sub >= 0 && k != sub) continue;
            applySchedule(sc, k, plain);
            if (emit) { std::printf("%s\n", sc.toJson().dump().c_str()); continue; }
            std::printf("START %llu\n", (unsigned long long)sc.seed);
            rc |= runOne(sc, true);
            std::printf("DONE %llu\n", (unsigned long long)sc.seed);
        }
        return rc;
    }
    const int K = schedulesPer(prop, tier);
    std::vector<long> order;
    if (!indicesArg.empty()) {
        std::stringstream ss(indicesArg);
        std::string tok;
        while (std::getline(ss, tok, ',')) if (!tok.empty()) order.push_back(std::atol(tok.c_str()));
    } else {
        for (long n = from; n < count; ++n) if (n % of == stripe) order.push_back(n);
    }
    for (long n : order) {
        uint64_t s = deriveSeed(base, uint64_t(n));
        // every batch contains the scale scenarios (seed residues 1, 2 and 3 modulo 4096, see gen.cpp); no other index is forced onto them
        if (n >= 0 && n < 6) s = (s & ~uint64_t(8191)) | (uint64_t(n / 3) << 12) | uint64_t(n % 3 + 1);   // both variants (bit 12) of the three kinds
        std::printf("START %llu %ld\n", (unsigned long long)s, n);
        std::fflush(stdout);
        Scenario sc = generate(prop, s, tier, plain);
        const bool scaleScenario = sc.src.size() > 3000 || (sc.blockSize == 1 && sc.src.size() > 1000);     // the two large scenarios of a batch: two schedules are enough
        for (int k = 0; k < (scaleScenario ? std::min(K, 2) : K) && !g_leakSeen; ++k) {
            applySchedule(sc, k, plain);
            runOne(sc, false);
        }
        std::printf("DONE %llu\n", (unsigned long long)s);
        if (g_leakSeen) { std::printf("RESTART %ld\n", n); std::fflush(stdout); _exit(0); }
        std::fflush(stdout);
    }
    return 0;
}
