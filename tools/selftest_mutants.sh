#!/bin/bash
# Sensitivity self-test (not a registered check): applies small, realistic breaking edits to a scratch copy of /repo
# and confirms that the named checks report a violation within a small budget.  Scratch copy and build are removed.
# usage: tools/selftest_mutants.sh [mutant-name ...]
set -u
cd "$(dirname "$0")/.."
SCR=/var/tmp/tbfsim_mut_repo
BLD=/var/tmp/tbfsim_mut_build
rm -rf "$SCR"; mkdir -p "$SCR"
cleanup() { rm -rf "$SCR" "$BLD"; }
trap cleanup EXIT
OMP=src/algorithms/openmp/tbfopenmpalgorithm.hpp
TSM=src/algorithms/openmp/tbfopenmpalgorithmtsm.hpp
SEQ=src/algorithms/sequential/tbfalgorithm.hpp

declare -A PATCH CHECKS
PATCH[m2m_drop_in_dep]="s/#pragma omp task depend(in:ptr_lowerGroupGetMultipolePtr\[0\]) depend(commute:ptr_upperGroupGetMultipolePtr\[0\])/#pragma omp task depend(commute:ptr_upperGroupGetMultipolePtr[0])/ $OMP"
CHECKS[m2m_drop_in_dep]="C03"
PATCH[m2l_commute_to_in]="s/depend(in:ptr_currentGroupGetMultipolePtr\[0\]) depend(commute:ptr_currentGroupGetLocalPtr\[0\])/depend(in:ptr_currentGroupGetMultipolePtr[0],ptr_currentGroupGetLocalPtr[0])/ $OMP"
CHECKS[m2l_commute_to_in]="C03"
PATCH[l2l_kernel_zero]="s/kernelWrapper.L2L(idxLevel, kernelsPtr\[omp_get_thread_num()\]/kernelWrapper.L2L(idxLevel, kernelsPtr[0]/ $OMP"
CHECKS[l2l_kernel_zero]="C03 C18"
PATCH[l2l_level_shared]="s/firstprivate(idxLevel, upperGroup, lowerGroup, kernelsPtr)  priority(priorities.getL2LPriority(idxLevel))/firstprivate(upperGroup, lowerGroup, kernelsPtr)  priority(priorities.getL2LPriority(idxLevel))/ $OMP"
CHECKS[l2l_level_shared]="C02 C03 C15"
PATCH[p2p_skip_delete]="s/kernelWrapperPtr->P2PBetweenGroups(kernelsPtr\[omp_get_thread_num()\], \*groupSrcPtr, \*groupTargetPtr, std::move(\*indexesVec));/kernelWrapperPtr->P2PBetweenGroups(kernelsPtr[omp_get_thread_num()], *groupSrcPtr, *groupTargetPtr, std::move(*indexesVec)); if(false)/ $OMP"
CHECKS[p2p_skip_delete]="C03 C15"
PATCH[l2l_guard_m2m]="0,/if(inOperationToProceed \& TbfAlgorithmUtils::TbfL2L){/s//if(inOperationToProceed \& TbfAlgorithmUtils::TbfM2M){/ $SEQ"
CHECKS[l2l_guard_m2m]="C12"
PATCH[l2l_start_above]="s/for(long int idxLevel = stopUpperLevel ; idxLevel <= configuration.getTreeHeight()-2 ; ++idxLevel){/for(long int idxLevel = std::max(0L,stopUpperLevel-1) ; idxLevel <= configuration.getTreeHeight()-2 ; ++idxLevel){/ $OMP"
CHECKS[l2l_start_above]="C12 C02"
PATCH[rebuild_no_scatter]="s/particleRhsPtr\[idxValue\]\[idxPart\] = rhs\[particleIndexes\[idxPart\]\]\[idxValue\];/particleRhsPtr[idxValue][idxPart] = rhs[idxPart][idxValue];/ src/core/tbftree.hpp"
CHECKS[rebuild_no_scatter]="C13"
PATCH[counter_m2m_one]="s/counters.M2M += inNbChildren;/counters.M2M += 1;/ src/kernels/counterkernels/tbfinteractioncounter.hpp"
CHECKS[counter_m2m_one]="C18"
PATCH[tsm_half_list]="s/getNeighborListForBlock(\*currentParticleGroupTarget, configuration.getTreeHeight()-1, false, false)/getNeighborListForBlock(*currentParticleGroupTarget, configuration.getTreeHeight()-1, true, false)/ $TSM"
CHECKS[tsm_half_list]="C09"
# semantically neutral edits: every check must stay green
PATCH[neutral_no_taskwait]="s/#pragma omp taskwait// $OMP"
CHECKS[neutral_no_taskwait]="=C03"
PATCH[neutral_priorities]="s/priority(priorities.getP2PPriority())/priority(7)/ $OMP"
CHECKS[neutral_priorities]="=C03"

names=("$@"); [ ${#names[@]} -eq 0 ] && names=(m2m_drop_in_dep m2l_commute_to_in l2l_kernel_zero l2l_level_shared p2p_skip_delete l2l_guard_m2m l2l_start_above rebuild_no_scatter counter_m2m_one tsm_half_list neutral_no_taskwait neutral_priorities)
fail=0
for m in "${names[@]}"; do
  rsync -a --delete --exclude _build --exclude .git /repo/ "$SCR/"
  # rsync -a restores the previous mutant's file with its OLD modification time: make would keep objects built from the mutated header
  [ -n "${prevfile:-}" ] && touch "$SCR/$prevfile"
  spec="${PATCH[$m]}"; file="${spec##* }"; expr="${spec% *}"
  sed -i "$expr" "$SCR/$file"; prevfile="$file"
  if diff -q "/repo/$file" "$SCR/$file" >/dev/null; then echo "MUTANT $m: patch did not apply"; fail=1; continue; fi
  for c in ${CHECKS[$m]}; do
    want=1; [ "${c:0:1}" = "=" ] && { want=0; c="${c:1}"; }
    out=$(TBFSIM_REPO="$SCR" TBFSIM_BUILD="$BLD" python3 tools/check.py "$c" --seeds ${MUT_SEEDS:-150} --no-minimise --evidence-dir /var/tmp/tbfsim_mut_ev --replay-dir /var/tmp/tbfsim_mut_ev 2>&1); rc=$?
    if [ $rc -eq $want ]; then echo "MUTANT $m / $c: as expected (exit $rc) $(echo "$out" | grep -m1 '^violation:' | cut -c1-160)";
    else echo "MUTANT $m / $c: UNEXPECTED exit $rc"; echo "$out" | tail -5; fail=1; fi
  done
done
rm -rf /var/tmp/tbfsim_mut_ev /verif/replays/.tmp-* 
exit $fail
